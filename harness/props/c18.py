import json
"""C18 — extending a configurator equals building it with the extra rule."""
import random, json
import numpy as np
import puan, puan.logic.plog as pg
import puan.modules.configurator as cc
from common import *
from plogio import *

RULE = ("configurators over 0-4 rules (an empty configurator is a legal start of an add() chain) (cc.Any / cc.Xor with and without defaults, plain Any/Xor/AtMost/All/AtLeast, Imply rules; explicit and "
        "generated rule ids and configurator ids) x sequences of 1-3 added rules; the add() chain is compared with direct construction "
        "StingyConfigurator(*old_rules, *new_rules, id=old.id) on: full structure (classes, ids, generated flags, defaults, prio tags), "
        "default_prios, ge_polyhedron (matrix, variables, default_prio_vector), objective vectors seen by a recording solver in select(); "
        "the original must be unchanged; an added rule whose id names an existing top-level rule must be refused, others must not; "
        "non-trivial = >= 2 additions and >= 1 defaulted rule; distinct by the configurator text + additions")

class Recorder:
    def __init__(self): self.calls = []
    def __call__(self, polyhedron, objectives):
        objs = [list(map(int, o)) for o in objectives]
        self.calls.append((np.asarray(polyhedron).tolist(), objs))
        return [(None, 0, 5) for _ in objs]

def observe(cfg, items):
    rec = Recorder()
    prios = [{items[0]: 1}, {items[-1]: -2, items[0]: 3}]
    try:
        list(cfg.select(*prios, solver=rec))
    except Exception as e:
        rec.calls.append(("exception", type(e).__name__))
    ph = cfg.ge_polyhedron
    return {"structure": full_dump(cfg), "default_prios": sorted(cfg.default_prios.items()), "plain_matrix": np.asarray(cfg.to_ge_polyhedron(True)).tolist(),
            "matrix": np.asarray(ph).tolist(), "variables": [(v.id, v.bounds.as_tuple()) for v in ph.variables],
            "dpv": [int(x) for x in ph.default_prio_vector], "select_args": rec.calls}

def safe_observe(cfg, items):
    try:
        return observe(cfg, items)
    except BaseException as e:              # an empty configurator has no polyhedron (puan_rspy panics are BaseException)
        return {"structure": full_dump(cfg), "raised": type(e).__name__}

def solver_got_other(o):
    """select() hands the solver the configurator's own asserted polyhedron, and ge_polyhedron is the model's polyhedron
    (to_ge_polyhedron with the top node asserted) with the default priorities attached"""
    calls = o.get("select_args") or []
    if "matrix" in o and o["matrix"] != o.get("plain_matrix"):
        o["select_args"] = [(o["plain_matrix"], [])]      # reported through the same message: what the configurator hands out is not its model's polyhedron
        return True
    return bool(calls) and calls[0][0] != "exception" and calls[0][0] != o.get("matrix")

def look_alike(rule):
    """the same rule with another limit / another leaf range that is easily taken for the first (same id, operands and class)"""
    r = json.loads(json.dumps(ast_json(rule)))
    if r["k"] == "AtMost" and r.get("v") in (1, 2):
        r["v"] = 3 - r["v"]; return r
    if r["k"] == "AtLeast" and r.get("ch") and r["ch"][0]["k"] == "var":
        lo, hi = r["ch"][0]["b"]
        r["ch"][0]["b"] = [lo + 1, hi - 1] if hi - lo >= 2 else [lo - 1, hi + 1]; return r
    return None

def oracle_case(res, base_ast, adds, items):
    bad = _oracle_case(res, base_ast, adds, items)
    return bad

def _oracle_case(res, base_ast, adds, items):
    cfg = build(base_ast)
    before = full_dump(cfg)
    snapshot = safe_observe(build(base_ast), items)         # what a fresh identical original answers
    c = cfg
    for r in adds:
        c = c.add(build(r))
    res.evaluations += 1
    direct_ast = {"k": "Stingy", "ch": base_ast["ch"] + adds, "id": cfg.id}
    direct = build(direct_ast)
    if full_dump(cfg) != before:
        return "add() changed the configurator it was called on"
    if c.id != cfg.id:
        return f"add() changed the configurator id {cfg.id} -> {c.id}"
    a, d = safe_observe(c, items), safe_observe(direct, items)      # a configurator nobody can convert raises on both sides alike
    for who, o in (("a fresh identical original", snapshot), ("the extended configurator", a), ("the directly constructed configurator", d)):
        if solver_got_other(o):
            return f"select() on {who} handed the solver a polyhedron that is not its ge_polyhedron: {str(o['select_args'][0][0])[:200]} vs {str(o['matrix'])[:200]}"
    if ("raised" in a) != ("raised" in d):
        return f"add-chain and direct construction differ: one raises on conversion, the other does not ({a.get('raised')} vs {d.get('raised')})"
    for k in a:
        if a[k] != d.get(k):
            return f"add-chain and direct construction differ in {k}: {str(a[k])[:300]} vs {str(d[k])[:300]}"
    # the original must still answer like a fresh identical configurator AFTER the extended one was observed
    # (add() shares the rule objects with the original)
    now = safe_observe(cfg, items)
    if solver_got_other(now):
        return f"select() on the original, after the extended configurator was used, handed the solver a polyhedron that is not its ge_polyhedron: {str(now['select_args'][0][0])[:200]} vs {str(now['matrix'])[:200]}"
    for k in snapshot:
        if now.get(k) != snapshot[k]:
            return f"the original configurator changed in {k} after the extended one was built and observed: {str(snapshot[k])[:300]} -> {str(now.get(k))[:300]}"
    # two ALTERNATIVE extensions of the one original in one process: the second, with a look-alike of the first added rule,
    # is its own configurator
    alt_rule = look_alike(adds[0]) if adds else None
    if alt_rule is not None:
        try:
            alt = cfg.add(build(alt_rule))
        except Exception:
            alt = None
        if alt is not None:
            res.evaluations += 1
            first = safe_observe(cfg.add(build(adds[0])), items)
            oa = safe_observe(alt, items)
            od = safe_observe(build({"k": "Stingy", "ch": base_ast["ch"] + [alt_rule], "id": cfg.id}), items)
            for who, o in (("the first of two alternative extensions", first), ("the second of two alternative extensions", oa), ("its direct construction", od)):
                if solver_got_other(o):
                    return f"{who} (rules {json.dumps(ast_json(adds[0]))[:150]} / {json.dumps(alt_rule)[:150]}) hands out a polyhedron that is not its model's: {str(o['select_args'][0][0])[:200]} vs {str(o['matrix'])[:200]}"
            for k in oa:
                if oa[k] != od.get(k):
                    return f"the second of two alternative extensions differs from its direct construction in {k}: {str(oa[k])[:300]} vs {str(od.get(k))[:300]}"
    # and extending the original again still equals direct construction
    if adds:
        again, direct1 = cfg.add(build(adds[0])), build({"k": "Stingy", "ch": base_ast["ch"] + adds[:1], "id": cfg.id})
        a1, d1 = safe_observe(again, items), safe_observe(direct1, items)
        for k in a1:
            if a1[k] != d1.get(k):
                return f"a second add() on the original differs from direct construction in {k}: {str(a1[k])[:300]} vs {str(d1.get(k))[:300]}"
    return None

def run(res, tier, seed):
    rng = random.Random(seed * 1000003 + 18)
    res.rule = RULE
    n = 220 if tier == "quick" else 2500
    cases, bcases = [], []
    for _ in range(n):
        g = ConfigGen(random.Random(rng.getrandbits(64)))
        base = g.config()
        nadd = rng.randint(1, 3)
        adds = [g.rule(force_id=rng.random() < 0.7) for _ in range(nadd)]
        if rng.random() < 0.2:
            # an item is added, not a rule: a bare variable (names as in the generator's pool of bare items)
            adds.insert(rng.randrange(len(adds) + 1), {"k": "var", "id": rng.choice(["1a", "9", "10", "zz", "Base", "q7"]), "b": [0, 1]})
        if rng.random() < 0.2:
            # the added rule brings no new id: an item that so far only occurs inside rules becomes required, or a named
            # sub-proposition of a rule is promoted to a rule of its own
            inner = [c for r in base["ch"] if isinstance(r, dict) for c in r.get("ch", []) if isinstance(c, dict)]
            named = [c for c in inner if c["k"] not in ("str", "var") and c.get("id") and not c.get("default")]
            atoms = [c for c in inner if c["k"] in ("str", "var")]
            if named and rng.random() < 0.5:
                adds = [json.loads(json.dumps(ast_json(rng.choice(named))))] + (adds[:1] if rng.random() < 0.3 else [])
                res.count("add_promotes_sub_proposition")
            elif atoms:
                a0 = rng.choice(atoms)
                adds = [{"k": "var", "id": a0["id"], "b": list(a0.get("b", [0, 1]))}] + (adds[:1] if rng.random() < 0.3 else [])
                res.count("add_requires_existing_item")
            nadd = len(adds)
        if rng.random() < 0.15:
            # a limit rule (at most 1 / at most 2 of a group) or a quantity rule over an integer item is added: the kind of rule of
            # which an application tries alternatives on one original
            if rng.random() < 0.6:
                adds = [{"k": "AtMost", "v": rng.choice([1, 2]), "ch": g.leaves(3, 3), "id": "Lim"}] + adds[:1]
            else:
                lo = rng.randint(0, 1); adds = [{"k": "AtLeast", "v": 1, "s": None, "ch": [{"k": "var", "id": "qty", "b": [lo, lo + rng.randint(2, 3)]}], "id": "Qty"}] + adds[:1]
            nadd = len(adds); res.count("limit_rule_with_look_alike")
        if rng.random() < 0.08:
            # a configurator that holds exactly ONE rule, an unnamed group (a single package): what add() starts from must be
            # what direct construction builds from the same rule
            k1 = rng.choice(["All", "All", "Any", "AtLeast"])
            one = {"k": k1, "ch": g.leaves(2, 3), "id": None}
            if k1 == "AtLeast": one["v"] = 2; one["s"] = None
            base["ch"] = [one]; res.count("single_unnamed_rule")
        if rng.random() < 0.12:
            # ids whose order depends on how they are compared: decimal ids of different lengths ("9" before "10" as numbers,
            # after it as text) next to an id that starts with a digit ("1a") - the configurator has ONE order for them,
            # whichever way the rules arrive
            d1, d2 = rng.choice([("9", "10"), ("2", "100"), ("9", "100"), ("10", "9")])
            base["ch"] = [c for c in base["ch"] if c.get("id") not in (d1, d2, "1a")]
            base["ch"].insert(rng.randrange(len(base["ch"]) + 1), {"k": "str", "id": d1})
            base["ch"].insert(rng.randrange(len(base["ch"]) + 1), {"k": rng.choice(["str", "var"]), "id": d2, "b": [0, 1]})
            mid = {"k": "var", "id": "1a", "b": [0, 1]} if rng.random() < 0.5 else {"k": "Any", "ch": [g.leaf(rng.choice(g.items)), g.leaf(rng.choice(g.items))], "id": "1a"}
            adds = [a for a in adds if a.get("id") not in (d1, d2, "1a")]
            adds.insert(rng.randrange(len(adds) + 1), mid)
            nadd = len(adds); res.count("order_sensitive_ids")
        if rng.random() < 0.25 and len(g.items) >= 4:
            # a defaulted rule whose non-default branch Any(rest) also occurs, untagged and with the same generated id,
            # inside a rule of the other configurator (add() shares rule objects between the two)
            its = rng.sample(g.items, rng.randint(3, 4)); d0, rest = its[0], its[1:]
            plain = {"k": "Imply", "ch": [g.leaf(rng.choice(g.items)), {"k": "Any", "ch": [g.leaf(i) for i in rest], "id": None}], "id": g.fresh(True)}
            dflt = {"k": rng.choice(["CcAny", "CcXor"]), "ch": [g.leaf(i) for i in its], "default": [d0], "id": g.fresh(True)}
            if rng.random() < 0.5:
                base["ch"].append(plain); adds.insert(0, dflt)
            else:
                base["ch"].append(dflt); adds.insert(0, plain)
            nadd = len(adds); res.count("untagged_twin_across_add")
        try:
            cfg0 = build(base)
            ids0 = {p.id for p in cfg0.propositions}
            built_adds = [build(r) for r in adds]
        except Exception as e:
            res.count("build_error:" + type(e).__name__); continue
        # keep the all-accepted stream free of clashes; clashes go to the rejection stream below
        seen = set(ids0); ok = True
        for r in built_adds:
            if r.id in seen: ok = False
            seen.add(r.id)
        if not ok:
            res.count("skipped_clash"); continue
        if cfg0.errors():
            res.count("skipped_invalid"); continue
        defaulted = any(x.get("default") for x in base["ch"] + adds for x in [x] + x.get("ch", []) if isinstance(x, dict))
        res.count("additions_%d" % nadd)
        if defaulted: res.count("has_defaulted_rule")
        if nadd >= 2 and defaulted:
            res.nt(full_dump(cfg0) + json.dumps([ast_json(a) for a in adds]))
        problem = oracle_case(res, base, adds, g.items)
        if problem:
            res.violation("oracle", problem + f" for {cfg0!r} + {[repr(x) for x in built_adds]}",
                          {"op": "add", "config": ast_json(base), "adds": [ast_json(a) for a in adds], "items": g.items, "problem": problem})
        # correspondence: every add step, and the direct construction through the constructor model
        c = build(base)
        for r_ast in adds:
            orc = IdOracle()
            with orc:
                r = build(r_ast)
                nxt = c.add(r)
            cases.append((lambda it, c=c, r=r, nxt=nxt, orc=orc: f"({orc.term(it)}, {dump(c, it)}, {dump(r, it)}, (Some {dump(nxt, it)}))", (base, adds)))
            c = nxt
        orc = IdOracle()
        direct_ast = {"k": "Stingy", "ch": base["ch"] + adds, "id": cfg0.id}
        with orc:
            direct = build(direct_ast)
        bcases.append((lambda it, a=direct_ast, m=direct, orc=orc: f"({orc.term(it)}, {form_term(a, it)}, {dump(m, it)})", (direct_ast,)))
        # rejection: re-adding an existing top-level rule id must raise; the model must return None
        if not cfg0.propositions:
            res.count("empty_start"); res.sample({"config": repr(cfg0), "adds": [repr(x) for x in built_adds]}); continue
        victim = rng.choice(cfg0.propositions)
        clash_ast = g.simple(force_id=True); clash_ast["id"] = victim.id
        try:
            clash = build(clash_ast)
            try:
                cfg0.add(clash); raised = False
            except Exception:
                raised = True
            res.evaluations += 1; res.count("rejection_checked")
            if not raised:
                res.violation("oracle", f"add() accepted a rule whose id {victim.id} names an existing top-level rule of {cfg0!r}",
                              {"op": "reject", "config": ast_json(base), "adds": [ast_json(clash_ast)], "items": g.items, "problem": "not refused"})
            cases.append((lambda it, c=build(base), r=clash: f"([], {dump(c, it)}, {dump(r, it)}, None)", (base, [clash_ast])))
        except Exception:
            pass
        res.sample({"config": repr(cfg0), "adds": [repr(x) for x in built_adds]})
    n1, f1, e1 = run_case_shards("C18", "add", "", "idtable * prop * prop * option prop", "check_add", cases, imports="Puan.Plog Puan.Sem Puan.Corr Puan.Cons Puan.CorrCons")
    n2, f2, e2 = run_case_shards("C18", "build", "", "idtable * form * prop", "check_build", bcases, imports="Puan.Plog Puan.Sem Puan.Corr Puan.Cons Puan.CorrCons")
    res.corr_cases += n1 + n2; res.evaluations += n1 + n2
    for e in e1 + e2:
        res.violation("corr", "correspondence shard failed: " + e, {"check": "CorrCons.check_add/check_build", "error": e})
    for i in f1[:10]:
        base, adds = cases[i][1]
        res.violation("corr", f"model add differs from implementation for {build(base)!r} + {[repr(build(a)) for a in adds]}",
                      {"check": "CorrCons.check_add", "config": ast_json(base), "adds": [ast_json(a) for a in adds], "failing_input_found": False})
    for i in f2[:10]:
        (a,) = bcases[i][1]
        res.violation("corr", f"constructor model differs from implementation for configurator {build(a)!r}: {full_dump(build(a))[:400]}",
                      {"check": "CorrCons.check_build", "config": ast_json(a), "failing_input_found": False})

def replay(payload):
    r = payload.get("replay", payload)
    class R: evaluations = 0
    if r.get("op") == "reject":
        cfg = build(r["config"])
        try:
            cfg.add(build(r["adds"][0])); print("accepted -> FAILS"); return 1
        except Exception as e:
            print("refused:", e); return 0
    problem = oracle_case(R, r["config"], r["adds"], r["items"])
    print("config", build(r["config"]), "->", "FAILS: " + problem if problem else "holds")
    return 1 if problem else 0
