"""C16 — JSON round trip preserves meaning, explicit ids and defaults."""
import random, json, itertools, re
import numpy as np
import puan, puan.logic.plog as pg
import puan.modules.configurator as cc
from common import *
from plogio import *

RULE = ("validated models from every class in the JSON class map (AtLeast with explicit signs, AtMost, All, Any, Xor, XNor over leaves, Imply, Not; nested "
        "depth 0-3; integer leaf bounds; explicit and generated ids) and configurators (cc.Any / cc.Xor with defaults, Imply rules); every model goes "
        "to_json -> json.dumps -> json.loads -> from_json; checked: same leaves with the same bounds, equal evaluation on assignments (exhaustive <= cap, "
        "else random), explicit ids kept and no id emitted for generated ones, configurators: same default_prios and ge_polyhedron; "
        "non-trivial = a non-atom child under Imply/XNor/a cc rule, or a non-default sign; distinct by canonical text. "
        "Known findings kept in dedicated streams: D6 (XNor with a compound child), D13 (pre-fixed sub-proposition bounds are not serialised), "
        "D15 (generated helper ids of negation results / explicitly signed nodes are not reproduced)")

def jterm(x, it):
    if isinstance(x, bool): raise ValueError("bool in json")
    if isinstance(x, int): return f"(JInt {z(x)})"
    if isinstance(x, str): return f"(JStr {it.s(x)})"
    if isinstance(x, list): return f"(JList {lst(jterm(v, it) for v in x)})"
    if isinstance(x, dict): return f"(JObj {lst(f'({q(k)}, {jterm(v, it)})' for k, v in x.items())})"
    raise ValueError(type(x))

class DocumentChanged(Exception):
    pass

def roundtrip(m, cfg=False):
    doc = json.loads(json.dumps(m.to_json()))
    load = cc.StingyConfigurator.from_json if cfg else pg.from_json
    # the document is the caller's: it is loaded TWICE from the same dictionary object and has to be the same text afterwards;
    # what is judged is the second load (for a loader that only reads, the same as the first)
    text = json.dumps(doc, sort_keys=True)
    load(doc)
    m2 = load(doc)
    if json.dumps(doc, sort_keys=True) != text:
        raise DocumentChanged(f"from_json changed the document it was given: {text[:300]} -> {json.dumps(doc, sort_keys=True)[:300]}")
    return doc, m2

def doc_ids(doc, acc):
    """'id' fields of compound documents"""
    if isinstance(doc, dict):
        if ("propositions" in doc or doc.get("type") in ("Imply", "Not")) and "id" in doc:
            acc.append(doc["id"])
        for v in doc.values():
            doc_ids(v, acc)
    elif isinstance(doc, list):
        for v in doc:
            doc_ids(v, acc)
    return acc

def oracle_model(res, ast, m, rng, n_env, cap, cfg=False, first_envs=()):
    try:
        doc, m2 = roundtrip(m, cfg)
    except Exception as e:
        return f"round trip raised {type(e).__name__}: {e}"
    def merged(p):
        """an All-like node whose set() of arguments merged two of them (value < number of children)"""
        return [x.id for x in all_nodes(p) if not is_var(x) and isinstance(x, pg.All) and x.value != len(x.propositions)]
    if not is_var(m2) and merged(m2) and not merged(m):
        # the evaluation-changing face finding D15 had before fix D16 (All counts every operand): two children come back
        # with one generated id and the All's threshold drops below the number of its children
        return f"after the round trip All-like node(s) {merged(m2)} have a threshold below the number of their children"
    l1 = [(l.id, l.bounds.as_tuple()) for l in leaves_of(m)]
    l2 = [(l.id, l.bounds.as_tuple()) for l in leaves_of(m2)] if not is_var(m2) else [(m2.id, m2.bounds.as_tuple())]
    if l1 != l2:
        return f"leaf variables differ: {l1} vs {l2}"
    if not m.generated_id and m2.id != m.id:
        return f"explicit id {m.id} became {m2.id}"
    if m.generated_id and "id" in doc:
        return f"generated top id emitted as explicit id {doc['id']}"
    explicit = {x.id for x in all_nodes(m) if not is_var(x) and not x.generated_id}
    stray = [i for i in doc_ids(doc, []) if i not in explicit]
    if stray:
        return f"document carries ids {stray} that were not given explicitly"
    lv = leaves_of(m)
    envs = all_envs(lv, cap) if cap else None
    if envs is None:
        envs = [random_env(lv, rng) for _ in range(n_env)]
    ids = {l.id for l in lv}
    envs = [{k: v for k, v in e.items() if k in ids} for e in first_envs if ids <= set(e)] + envs
    for env in envs:
        res.evaluations += 1
        a = ref_eval_d(m, {}, env); b_ = ref_eval_d(m2, {}, env) if not is_var(m2) else env[m2.id]
        if a != b_:
            return f"original evaluates to {a}, round-tripped to {b_} at {json.dumps(env)}"
    if cfg:
        p1, p2 = m.ge_polyhedron, m2.ge_polyhedron
        same = (np.asarray(p1).tolist() == np.asarray(p2).tolist() and [v.id for v in p1.variables] == [v.id for v in p2.variables]
                and list(map(int, p1.default_prio_vector)) == list(map(int, p2.default_prio_vector))
                and sorted(m.default_prios.items()) == sorted(m2.default_prios.items()))
        if not same:
            # finding D15: generated helper ids are not reproduced (the id hash includes the sign ARGUMENT, which
            # negate() passes explicitly and from_json cannot); everything else must still agree
            gen1 = {x.id for x in all_nodes(m) if not is_var(x) and x.generated_id}
            gen2 = {x.id for x in all_nodes(m2) if not is_var(x) and x.generated_id}
            fixed1 = sorted((v.id, v.bounds.as_tuple()) for v in p1.variables[1:] if v.id not in gen1)
            fixed2 = sorted((v.id, v.bounds.as_tuple()) for v in p2.variables[1:] if v.id not in gen2)
            dp1, dp2 = m.default_prios, m2.default_prios
            if (gen1 != gen2 and fixed1 == fixed2 and np.asarray(p1).shape == np.asarray(p2).shape
                    and sorted(dp1[i] for i in dp1 if i in gen1) == sorted(dp2[i] for i in dp2 if i in gen2)
                    and sorted((k, v) for k, v in dp1.items() if k not in gen1) == sorted((k, v) for k, v in dp2.items() if k not in gen2)
                    and sorted(np.asarray(p1)[:, 0].tolist()) == sorted(np.asarray(p2)[:, 0].tolist())):
                return "D15: generated helper ids differ after the round trip: " + str(sorted(gen1 - gen2))[:120] + " vs " + str(sorted(gen2 - gen1))[:120]
            return "ge_polyhedron / default_prios of the round-tripped configurator differ"
    return None

def d15_nodes(m):
    """generated nodes whose id was NOT generated as (children, value, sign argument None): built with an explicit
    sign argument (negate(), AtMost, explicitly signed AtLeast) or, for inward-pushed negations, from the
    pre-negation children — from_json cannot reproduce such an id"""
    out = []
    for x in all_nodes(m):
        if not is_var(x) and x.generated_id and type(x) in (pg.AtLeast,) and x.id != pg.AtLeast._id_generator(x.propositions, x.value, None):
            out.append(x.id)
    return out

def xnor_with_compound(m):
    return any(type(x) == pg.XNor and any(not is_var(c) for a in x.propositions for c in a.propositions) for x in all_nodes(m) if not is_var(x))
def has_prefixed(m):
    return any((not is_var(x)) and x.bounds.lower == x.bounds.upper for x in all_nodes(m))

def sub_asts(ast, acc=None):
    acc = [] if acc is None else acc
    if ast["k"] not in ("str", "var"):
        acc.append(ast)
        for c in ast.get("ch", []):
            sub_asts(c, acc)
    return acc
def strip_vb(ast):
    if ast["k"] in ("str", "var"):
        return dict(ast)
    d = {k: v for k, v in ast.items() if k not in ("ch", "vb")}
    d["ch"] = [strip_vb(c) for c in ast.get("ch", [])]
    return d

def nontrivial(ast):
    def go(a, under):
        if a["k"] in ("str", "var"): return False
        if under and True: return True
        return any(go(c, a["k"] in ("Imply", "XNor", "CcAny", "CcXor")) for c in a.get("ch", []))
    return go(ast, False) or any(True for _ in [0] if '"s": 1' in json.dumps(ast_json(ast)) or '"s": -1' in json.dumps(ast_json(ast)))

def run(res, tier, seed):
    rng = random.Random(seed * 1000003 + 16)
    res.rule = RULE
    n_models = 350 if tier == "quick" else 4000
    n_cfg = 120 if tier == "quick" else 1500
    tcases, fcases = [], []
    def add_corr(m, cfg):
        orc = IdOracle()
        with orc:
            doc = json.loads(json.dumps(m.to_json()))
        tcases.append((lambda it, m=m, doc=doc, orc=orc: f"({orc.term(it)}, {dump(m, it)}, {jterm(doc, it)})", (m,)))
        orc2 = IdOracle()
        try:
            with orc2:
                m2 = cc.StingyConfigurator.from_json(doc) if cfg else pg.from_json(doc)
            obs = lambda it, m2=m2: f"(Some {dump(m2, it)})"
        except Exception:
            obs = lambda it: "None"
        fcases.append((lambda it, doc=doc, orc2=orc2, obs=obs, cfg=cfg: f"({orc2.term(it)}, {1 if cfg else 0}%nat, {jterm(doc, it)}, {obs(it)})", (m,)))
    # main stream: XNor only over leaves, no pre-fixed sub-propositions
    for ast, m in gen_valid(rng, n_models, res, want=lambda m: not xnor_with_compound(m) and not has_prefixed(m)):
        res.count("kind_" + ast["k"]); res.count("depth_%d" % depth_of(m))
        if nontrivial(ast):
            res.nt(canon(m)); res.count("nontrivial")
        problem = oracle_model(res, ast, m, rng, 8 if tier == "quick" else 25, 0 if tier == "quick" else 300)
        if problem:
            res.violation("oracle", f"JSON round trip of {m!r}: {problem}", {"op": "roundtrip", "model": ast_json(ast), "cfg": False, "problem": problem})
        add_corr(m, False)
        res.sample({"model": repr(m), "json": json.dumps(m.to_json())[:300]})
    # unnamed one-leaf threshold nodes (both signs, thresholds around 1) as condition / consequence of an Imply and as operands:
    # the shapes a serialiser is tempted to write as the bare leaf
    prng = random.Random(seed * 7933 + 16)
    for _ in range(40 if tier == "quick" else 400):
        def one_leaf():
            lf = {"k": "var", "id": prng.choice("tuv"), "b": [prng.randint(-3, 0), prng.randint(0, 3)]} if prng.random() < 0.7 else {"k": "str", "id": prng.choice("tuv")}
            v = prng.choice([1, 1, -1, 0, 2])
            return prng.choice([{"k": "AtMost", "v": -v, "ch": [lf], "id": None}, {"k": "AtLeast", "v": v, "s": -1, "ch": [lf], "id": None},
                                {"k": "AtLeast", "v": v, "s": 1, "ch": [lf], "id": None}, {"k": "AtLeast", "v": v, "s": None, "ch": [lf], "id": None}])
        other = prng.choice([{"k": "str", "id": "x"}, {"k": "Any", "ch": [{"k": "str", "id": "x"}, {"k": "str", "id": "y"}], "id": prng.choice(["B", None])}, one_leaf()])
        pair = [one_leaf(), other] if prng.random() < 0.7 else [other, one_leaf()]
        ast = {"k": "Imply", "ch": pair, "id": prng.choice(["I", None])} if prng.random() < 0.75 else {"k": prng.choice(["All", "Any", "Xor"]), "ch": pair, "id": prng.choice(["W", None])}
        try:
            m = build(ast)
            if m.errors() or not plain(m, allow_const=True):
                continue
        except Exception:
            continue
        res.count("one_leaf_threshold_nodes")
        problem = oracle_model(res, ast, m, prng, 30, 400)
        if problem:
            res.violation("oracle", f"JSON round trip of {m!r}: {problem}", {"op": "roundtrip", "model": ast_json(ast), "cfg": False, "problem": problem})
    # configurators
    for _ in range(n_cfg):
        g = ConfigGen(random.Random(rng.getrandbits(64)))
        ast = g.config()
        try:
            m = build(ast)
            if m.errors():
                res.count("skipped_invalid"); continue
        except Exception as e:
            res.count("build_error:" + type(e).__name__); continue
        res.count("configurator")
        if any(r.get("default") for r in ast["ch"] + [c for r in ast["ch"] for c in r.get("ch", []) if isinstance(c, dict)]):
            res.nt(full_dump(m)); res.count("configurator_with_default")
        problem = oracle_model(res, ast, m, rng, 6 if tier == "quick" else 20, 0 if tier == "quick" else 300, cfg=True)
        if problem:
            res.violation("oracle", f"JSON round trip of configurator {m!r}: {problem}", {"op": "roundtrip", "model": ast_json(ast), "cfg": True, "problem": problem})
        add_corr(m, True)
    # finding D15: configurators with a negated rule or an explicitly signed AtLeast rule at the top
    for _ in range(40 if tier == "quick" else 400):
        g = ConfigGen(random.Random(rng.getrandbits(64)))
        ast = g.config(nrules=rng.randint(1, 2))
        extra = rng.choice([{"k": "Not", "ch": [{"k": "All", "ch": g.leaves(2, 2), "id": None}], "id": None},
                            {"k": "AtLeast", "v": 2, "s": 1, "ch": g.leaves(3, 3), "id": None},
                            {"k": "Not", "ch": [{"k": "Any", "ch": g.leaves(2, 3), "id": None}], "id": None}])
        ast["ch"].append(extra)
        try:
            m = build(ast)
            if m.errors():
                continue
        except Exception:
            continue
        res.count("stream_D15")
        problem = oracle_model(res, ast, m, rng, 6, 0, cfg=True)
        structural = problem and problem.split(":")[0] in ("leaf variables differ", "round trip raised") or (problem or "").startswith(("explicit id", "generated top id", "document carries ids"))
        if problem and not structural and d15_nodes(m):
            res.known_finding("D15", f"generated ids are not stable under the JSON round trip when the sign was passed explicitly (every negate()/Not result): the round-tripped configurator's polyhedron and default_prios use different helper ids, e.g. {m!r}: {problem}"[:420])
        elif problem:
            res.violation("oracle", f"JSON round trip of configurator {m!r}: {problem}", {"op": "roundtrip", "model": ast_json(ast), "cfg": True, "problem": problem})
    # known-finding streams: a failure is attributed to a finding only by its classifier, anything else is a violation
    def failing_env(problem):
        mm = re.search(r" at (\{.*\})$", problem or "")
        try:
            return [json.loads(mm.group(1))] if mm else []
        except Exception:
            return []
    def classify(ast, problem=None):
        fe = failing_env(problem)
        subs = sorted(sub_asts(ast), key=ast_size)
        for sa in subs:
            try:
                sm = build(sa)
            except Exception:
                continue
            if is_var(sm):
                continue
            if oracle_model(res, sa, sm, rng, 30, 300, first_envs=fe):
                if sa["k"] == "XNor" and any(c["k"] not in ("str", "var") for c in sa["ch"]):
                    return "D6"
                if sa.get("vb") is not None or any(x.get("vb") is not None for x in sub_asts(sa)):
                    stripped = strip_vb(sa)
                    if not oracle_model(res, stripped, build(stripped), rng, 30, 300, first_envs=fe):
                        return "D13"
                return None
        return None
    for label, kw, want in (("D6", dict(kinds=["XNor", "Any", "All", "XNor"]), xnor_with_compound),
                            ("D13", dict(constvar=0.5), lambda m: has_prefixed(m) and not xnor_with_compound(m))):
        for ast, m in gen_valid(rng, 60 if tier == "quick" else 400, res, want=want, **kw):
            problem = oracle_model(res, ast, m, rng, 30, 300)
            res.count("stream_" + label)
            if problem:
                fid = classify(ast, problem)
                if fid == "D6":
                    res.known_finding("D6", f"XNor.to_json serialises propositions[0].negate().propositions; with a compound operand the round trip changes the model, e.g. {m!r}: {problem}"[:400])
                elif fid == "D13":
                    res.known_finding("D13", f"to_json does not serialise the constant own bounds of a pre-fixed sub-proposition (from_json re-creates it with (0,1)), e.g. {m!r}: {problem}"[:400])
                else:
                    res.violation("oracle", f"JSON round trip of {m!r}: {problem}", {"op": "roundtrip", "model": ast_json(ast), "cfg": False, "problem": problem})
    n1, f1, e1 = run_case_shards("C16", "tojson", "", "idtable * prop * json", "check_to_json", tcases, imports="Puan.Plog Puan.Sem Puan.Corr Puan.Cons Puan.Json Puan.CorrJson")
    n2, f2, e2 = run_case_shards("C16", "fromjson", "", "idtable * nat * json * option prop", "check_from_json", fcases, imports="Puan.Plog Puan.Sem Puan.Corr Puan.Cons Puan.Json Puan.CorrJson")
    res.corr_cases += n1 + n2; res.evaluations += n1 + n2
    for e in e1 + e2:
        res.violation("corr", "correspondence shard failed: " + e, {"check": "CorrJson", "error": e})
    for i in f1[:10]:
        (m,) = tcases[i][1]
        res.violation("corr", f"model to_json differs from implementation for {m!r}: implementation wrote {json.dumps(m.to_json())[:500]}",
                      {"check": "CorrJson.check_to_json", "model": full_dump(m)[:2000], "failing_input_found": False})
    for i in f2[:10]:
        (m,) = fcases[i][1]
        res.violation("corr", f"model from_json differs from implementation for the document of {m!r}: {json.dumps(m.to_json())[:500]}",
                      {"check": "CorrJson.check_from_json", "model": full_dump(m)[:2000], "failing_input_found": False})

def replay(payload):
    r = payload.get("replay", payload)
    m = build(r["model"])
    class R: evaluations = 0
    problem = oracle_model(R, r["model"], m, random.Random(0), 200, 5000, cfg=r.get("cfg", False))
    print("model", m, "->", "FAILS: " + problem if problem else "holds")
    return 1 if problem else 0
