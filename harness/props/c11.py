"""C11 — polyhedron reduction preserves the integer solution set: reducable_rows,
reducable_columns_approx, reducable_rows_and_columns, reduce / reduce_rows / reduce_columns."""
import random, json, itertools, math
import numpy as np
import puan, puan.ndarray as pnd
from common import *
from polyio import *

RULE = ("random small integer systems (1-4 rows, 1-4 columns; profiles bool / big-M / mixed / forcing / infeasible / zero rows+columns / "
        "int16-wide bounds; coefficients up to |7| resp. 40000 in the wide profile; bounds boolean, negative, degenerate), always >= 1 row and "
        ">= 1 column (the domain on which the methods do not raise); non-trivial = reducable_rows_and_columns reduces at least one row AND one "
        "column, or the system is infeasible (no in-bounds integer solution); distinct by canonical text of (matrix, bounds)")

ENUM_CAP = 4000

def poly_json(P):
    M, bn, vi, ii = poly_lists(P)
    return {"M": M, "bnds": [list(x) for x in bn], "vars": vi, "index": ii, "shape": list(np.asarray(P).shape)}

def c11_poly(M, bnds):
    """the polyhedron of a case: narrowest storage type, and for a quarter of the cases (chosen from the data, so that a replay
    builds the same object) the subclass a configurator hands out - same matrix, variables and row index plus default
    priorities; reduction is inherited and has to answer the same"""
    P = mk_poly(M, bnds, narrow=True)
    if (len(M) + len(bnds) + sum(abs(x) for r in M for x in r)) % 4 == 0 and len(bnds) >= 1:
        P = pnd.ge_polyhedron_config(P, default_prio_vector=np.array([-1] * len(bnds)), variables=P.variables, index=P.index)
    return P

def observe(P):
    o = {}
    try:
        o["rr"] = [bool(v) for v in np.asarray(P.reducable_rows()).tolist()]
    except Exception as e:
        o["rr"] = None; o["rr_exc"] = f"{type(e).__name__}: {e}"
    try:
        o["rca"] = nanlist(P.reducable_columns_approx())
    except Exception as e:
        o["rca"] = None; o["rca_exc"] = f"{type(e).__name__}: {e}"
    try:
        rows, cols = P.reducable_rows_and_columns()
        o["loop"] = ([bool(v) for v in np.asarray(rows).tolist()], nanlist(cols))
        R = P.reduce(rows, cols)
        o["reduced"] = poly_json(R)
    except Exception as e:
        o["loop"] = None; o["reduced"] = None; o["loop_exc"] = f"{type(e).__name__}: {e}"
    o["step"] = None
    if o["rr"] is not None and o["rca"] is not None:
        try:
            R = P.reduce(P.reducable_rows(), P.reducable_columns_approx())
            o["step"] = poly_json(R)
        except Exception as e:
            o["step_exc"] = f"{type(e).__name__}: {e}"
    return o

def pj_term(pj, sv=(1, 1)):
    return poly_term(pj["M"], [tuple(x) for x in pj["bnds"]], pj["vars"], pj["index"], sv)

def obs_term(o):
    rr = "None" if o["rr"] is None else f"(Some {bl(o['rr'])})"
    rca = "None" if o["rca"] is None else f"(Some {ozl(o['rca'])})"
    loop = "LoopRaise" if o["loop"] is None else f"(LoopOk {bl(o['loop'][0])} {ozl(o['loop'][1])})"
    red = "None" if o["reduced"] is None else f"(Some {pj_term(o['reduced'])})"
    step = "None" if o["step"] is None else f"(Some {pj_term(o['step'])})"
    return f"(Obs11 {rr} {rca} {loop} {red} {step})"

def keep_of(cols, x):
    return tuple(v for c, v in zip(cols, x) if c is None)

def fill_of(cols, y):
    it = iter(y)
    return [c if c is not None else next(it) for c in cols]

def sols_of(pj, cap=ENUM_CAP):
    """all solutions of a (reduced) polyhedron given as poly_json, with ITS OWN bounds"""
    M, bnds = pj["M"], [tuple(x) for x in pj["bnds"]]
    if not bnds:
        return [()] if all(r[0] <= 0 for r in M) else []
    return [tuple(p) for p in box_points(bnds) if all(row_ok(r, p) for r in M)]

def check_reduced(fail, what, M, bnds, var_ids, idx_ids, rows, cols, pj, S, small, rng):
    """`pj` is claimed to be reduce(rows, cols) of (M, bnds): bookkeeping + projection in both directions"""
    n = len(bnds)
    keep_c = [j for j in range(n) if cols[j] is None]
    keep_r = [i for i in range(len(M)) if not rows[i]]
    if pj["vars"] != [var_ids[0]] + [var_ids[j + 1] for j in keep_c] or [tuple(x) for x in pj["bnds"]] != [bnds[j] for j in keep_c]:
        fail(what + "-variables", f"variables of the reduced polyhedron {pj['vars']} {pj['bnds']} are not those of the kept columns {keep_c}")
        return
    if pj["index"] != [idx_ids[i] for i in keep_r]:
        fail(what + "-index", f"index of the reduced polyhedron {pj['index']} is not that of the kept rows {keep_r}")
        return
    if pj["shape"] != [len(keep_r), len(keep_c) + 1] or any(len(r) != len(keep_c) + 1 for r in pj["M"]):
        fail(what + "-shape", f"reduced polyhedron has shape {pj['shape']}, expected {[len(keep_r), len(keep_c) + 1]}")
        return
    if small:
        proj = sorted({keep_of(cols, x) for x in S})
        RS = sorted(sols_of(pj))
        if proj != RS:
            extra = [y for y in RS if y not in set(proj)]
            missing = [y for y in proj if y not in set(RS)]
            if extra:
                y = extra[0]
                fail(what + "-projection", f"reduced polyhedron {pj['M']} has solution {list(y)} over columns {keep_c} that is not the projection of any solution "
                     f"of the original (rows {rows}, cols {cols}; original has {len(S)} solutions)", point=list(y))
            else:
                y = missing[0]
                x = next(x for x in S if keep_of(cols, x) == y)
                fail(what + "-projection", f"solution {list(x)} of the original is lost: its projection {list(y)} does not solve the reduced polyhedron {pj['M']} "
                     f"(rows {rows}, cols {cols})", point=list(x))
    else:
        Rb = [tuple(x) for x in pj["bnds"]]
        for x in S[:200]:
            y = keep_of(cols, x)
            if not is_solution(pj["M"], Rb, y):
                fail(what + "-projection", f"solution {list(x)} of the original is lost: its projection {list(y)} does not solve the reduced polyhedron {pj['M']}", point=list(x))
                return
        for _ in range(200):
            y = [rng.choice([lo, hi, rng.randint(lo, hi)]) for lo, hi in Rb]
            if all(row_ok(r, y) for r in pj["M"]):
                x = fill_of(cols, y)
                if not is_solution(M, bnds, x):
                    fail(what + "-projection", f"reduced polyhedron {pj['M']} has solution {y} whose extension {x} does not solve the original", point=x)
                    return

def oracle_system(M, bnds, o=None, points=None, rng=None):
    """The property statement executed against the implementation; returns (failures, info)."""
    fails = []
    info = {"nsol": None, "npts": 0}
    def fail(what, desc, **kw):
        fails.append((f"{what}: {desc}; matrix {M} bounds {bnds}", dict(op=what, M=M, bnds=[list(x) for x in bnds], **kw)))
    n = len(bnds)
    var_ids = ["0"] + ["v%d" % j for j in range(n)]
    idx_ids = ["r%d" % i for i in range(len(M))]
    if o is None:
        try:
            o = observe(c11_poly(M, bnds))
        except Exception as e:
            fail("observe", f"raised {type(e).__name__}: {e}")
            return fails, info
    rng = rng or random.Random(0)
    small = box_size(bnds) <= ENUM_CAP
    if small:
        pts = [tuple(p) for p in box_points(bnds)]
    else:
        pts = [tuple(c) for c in itertools.islice(itertools.product(*[(lo, hi) if lo != hi else (lo,) for lo, hi in bnds]), 64)]
        for _ in range(400):
            pts.append(tuple(rng.choice([lo, hi, rng.randint(lo, hi)]) for lo, hi in bnds))
        for r in M:
            pts.append(tuple(hi if c > 0 else lo for c, (lo, hi) in zip(r[1:], bnds)))
    if points:
        pts = [tuple(p) for p in points] + pts
    S = [p for p in pts if all(row_ok(r, p) for r in M)]
    info["nsol"] = len(S) if small else None
    info["npts"] = len(pts)
    for k in ("rr", "rca", "loop"):
        if o[k] is None:
            fail(k + "-raised", f"the call raised {o.get(k + '_exc')} on a matrix with rows and columns")
    if fails:
        return fails, info
    # (1) reducable_rows: every flagged row holds at every in-bounds point
    if len(o["rr"]) != len(M):
        fail("reducable_rows", f"result {o['rr']} has not one entry per row")
    else:
        for i, f in enumerate(o["rr"]):
            if f:
                bad = next((p for p in pts if not row_ok(M[i], p)), None)
                if bad is not None:
                    fail("reducable_rows", f"row {i} is reported reducible but the in-bounds point {list(bad)} violates it", point=list(bad), row=i)
                    break
    # (2) reducable_columns_approx: a reported value is taken in every solution
    def check_cols(what, cols):
        if len(cols) != n:
            fail(what, f"result {cols} has not one entry per column"); return False
        for j, c in enumerate(cols):
            if c is not None:
                if not (bnds[j][0] <= c <= bnds[j][1]):
                    fail(what, f"column {j} is reported fixed at {c}, outside its bounds {bnds[j]}", column=j); return False
                bad = next((x for x in S if x[j] != c), None)
                if bad is not None:
                    fail(what, f"column {j} is reported fixed at {c} but the solution {list(bad)} has {bad[j]} there", point=list(bad), column=j)
                    return False
        return True
    check_cols("reducable_columns_approx", o["rca"])
    # (3) the loop: forced columns; flagged rows hold at every in-bounds point having the forced values
    rows, cols = o["loop"]
    if check_cols("reducable_rows_and_columns-columns", cols):
        if len(rows) != len(M):
            fail("reducable_rows_and_columns-rows", f"result {rows} has not one entry per row")
        else:
            agreeing = [p for p in pts if all(c is None or p[j] == c for j, c in enumerate(cols))]
            for i, f in enumerate(rows):
                if f:
                    bad = next((p for p in agreeing if not row_ok(M[i], p)), None)
                    if bad is not None:
                        fail("reducable_rows_and_columns-rows", f"row {i} is reported reducible (columns {cols}) but the in-bounds point {list(bad)} with those column values violates it",
                             point=list(bad), row=i)
                        break
            if not fails:
                check_reduced(fail, "reduce", M, bnds, var_ids, idx_ids, rows, cols, o["reduced"], S, small, rng)
    # (4) one pass: reduce(reducable_rows(), reducable_columns_approx())
    if not fails and o["step"] is not None:
        check_reduced(fail, "reduce-one-pass", M, bnds, var_ids, idx_ids, o["rr"], o["rca"], o["step"], S, small, rng)
    elif not fails and o["step"] is None:
        fail("reduce-one-pass", f"reduce(reducable_rows(), reducable_columns_approx()) raised {o.get('step_exc')}")
    return fails, info

def run_oracle(res, M, bnds, o=None, points=None, rng=None):
    fails, info = oracle_system(M, bnds, o, points, rng)
    res.evaluations += 1 + info["npts"]
    for desc, payload in fails[:2]:
        res.violation("oracle", desc, payload)
    return not fails, info

def mutate(rng, M, bnds):
    M = [list(r) for r in M]; bnds = [tuple(x) for x in bnds]
    k = rng.random()
    if k < 0.5:
        i = rng.randrange(len(M)); j = rng.randrange(len(M[0]))
        M[i][j] += rng.choice([-2, -1, 1, 2])
    elif k < 0.8:
        j = rng.randrange(len(bnds)); lo, hi = bnds[j]
        lo += rng.choice([-1, 0, 1]); hi += rng.choice([-1, 0, 1])
        bnds[j] = (max(MIN_INT, min(lo, hi)), min(MAX_INT, max(lo, hi)))
    else:
        i = rng.randrange(len(M)); f = rng.choice([-1, 2, 3])
        M[i] = [f * c for c in M[i]]
    return M, bnds

def gen_reduce_args(rng, M, bnds):
    """arbitrary caller-supplied vectors for reduce(): any 0/1 row vector, any column vector of nan / small ints"""
    rv = None if rng.random() < 0.25 else [rng.random() < 0.4 for _ in M]
    cv = None if (rv is not None and rng.random() < 0.25) else [None if rng.random() < 0.55 else rng.randint(-3, 3) for _ in bnds]
    return rv, cv

def run(res, tier, seed):
    rng = random.Random(seed * 1000003 + 11)
    res.rule = RULE
    n_cases = 600 if tier == "quick" else 9000
    cases, arg_cases = [], []
    stream = [(M, [tuple(x) for x in bnds], "fixed") for M, bnds in FIXED_SYSTEMS]
    while len(stream) < n_cases:
        stream.append(gen_system(rng))
    for M, bnds, prof in stream:
        try:
            P = c11_poly(M, bnds)
            if isinstance(P, pnd.ge_polyhedron_config):
                res.count("as_ge_polyhedron_config")
            o = observe(P)
        except Exception as e:
            res.violation("oracle", f"a C11 method raised {type(e).__name__}: {e} on matrix {M} bounds {bnds}",
                          {"op": "observe", "M": M, "bnds": [list(x) for x in bnds]})
            continue
        res.count("profile_" + prof)
        ok, info = run_oracle(res, M, bnds, o, rng=rng)
        key = json.dumps([M, bnds])
        if o["loop"]:
            nr = sum(o["loop"][0]); nc = sum(1 for c in o["loop"][1] if c is not None)
            if nr: res.count("loop_reduces_rows")
            if nc: res.count("loop_reduces_columns")
            if nr and nc:
                res.count("loop_reduces_rows_and_columns")
            if nc == len(bnds): res.count("loop_fixes_all_columns")
            if nr == len(M): res.count("loop_removes_all_rows")
            if o["rca"] is not None and o["loop"][1] != o["rca"]:
                res.count("loop_needs_more_than_one_pass")
            if (nr and nc) or info["nsol"] == 0:
                res.nt(key)
        if info["nsol"] == 0:
            res.count("infeasible")
        elif info["nsol"] is not None:
            res.count("feasible_enumerated")
        else:
            res.count("wide_box_sampled")
        if o["rr"] and any(o["rr"]): res.count("reducable_rows_nonempty")
        if o["rca"] and any(c is not None for c in o["rca"]): res.count("reducable_columns_nonempty")
        if any(abs(c) > 1 for r in M for c in r[1:]): res.count("non_unit_coefficient")
        if any(lo < 0 for lo, _ in bnds): res.count("negative_lower_bound")
        cases.append((f"({poly_term(M, bnds)}, {obs_term(o)})", (M, bnds, o)))
        res.sample({"matrix": M, "bounds": bnds, "reducable_rows": o["rr"], "reducable_columns_approx": o["rca"],
                    "reducable_rows_and_columns": o["loop"], "reduced": o["reduced"] and o["reduced"]["M"]})
        # reduce with caller-supplied vectors (bookkeeping of reduce_rows / reduce_columns on their own)
        rv, cv = gen_reduce_args(rng, M, bnds)
        try:
            R = P.reduce(None if rv is None else pnd.boolean_ndarray(np.array(rv, dtype=int)),
                         None if cv is None else np.array([np.nan if c is None else float(c) for c in cv], dtype=float))
            pj = poly_json(R)
            rvt = "None" if rv is None else f"(Some {bl(rv)})"
            cvt = "None" if cv is None else f"(Some {ozl(cv)})"
            arg_cases.append((f"({poly_term(M, bnds)}, {rvt}, {cvt}, {pj_term(pj)})", (M, bnds, rv, cv, pj)))
            # direct bookkeeping check
            keep_c = [j for j in range(len(bnds)) if cv is None or cv[j] is None]
            keep_r = [i for i in range(len(M)) if rv is None or not rv[i]]
            want = [[M[i][0] - sum(M[i][j + 1] * cv[j] for j in range(len(bnds)) if cv is not None and cv[j] is not None)] + [M[i][j + 1] for j in keep_c] for i in keep_r]
            res.evaluations += 1
            if pj["M"] != want or pj["vars"] != ["0"] + ["v%d" % j for j in keep_c] or pj["index"] != ["r%d" % i for i in keep_r]:
                res.violation("oracle", f"reduce(rows={rv}, cols={cv}) of matrix {M} gives {pj}, expected rows {want} over columns {keep_c}",
                              {"op": "reduce-args", "M": M, "bnds": [list(x) for x in bnds], "rows": rv, "cols": cv})
        except Exception as e:
            res.violation("oracle", f"reduce(rows={rv}, cols={cv}) raised {type(e).__name__}: {e} on matrix {M}",
                          {"op": "reduce-args", "M": M, "bnds": [list(x) for x in bnds], "rows": rv, "cols": cv})
    n, failing, errs = run_case_shards("C11", "reduce", "", "poly * obs11", "check_reduce", cases, imports="Puan.Poly Puan.CorrPoly")
    res.corr_cases += n
    res.evaluations += n
    for e in errs:
        res.violation("corr", "correspondence shard failed: " + e, {"check": "CorrPoly.check_reduce", "error": e})
    n2, failing2, errs2 = run_case_shards("C11", "reduce_args", "", "poly * option (list bool) * option (list (option Z)) * poly", "check_reduce_args",
                                          arg_cases, imports="Puan.Poly Puan.CorrPoly")
    res.corr_cases += n2
    res.evaluations += n2
    for e in errs2:
        res.violation("corr", "correspondence shard failed: " + e, {"check": "CorrPoly.check_reduce_args", "error": e})
    for i in failing2[:5]:
        M, bnds, rv, cv, pj = arg_cases[i][1]
        res.violation("corr", f"model of reduce(rows={rv}, cols={cv}) differs from the implementation on matrix {M}: implementation returned {pj}",
                      {"check": "CorrPoly.check_reduce_args", "M": M, "bnds": [list(x) for x in bnds], "rows": rv, "cols": cv, "implementation_output": pj})
    # extra oracle stream
    extra = 1000 if tier == "quick" else 12000
    for _ in range(extra):
        M, bnds, prof = gen_system(rng)
        run_oracle(res, M, bnds, rng=rng)
    for _ in range(40 if tier == "quick" else 400):
        # a wide-range column (the default integer range) under a coefficient beyond 2^16: products beyond 32 bits
        big = rng.choice([65537, 70000, 131072, 2 ** 20]) * rng.choice([1, 1, -1])
        nb = rng.randint(1, 2)
        Mw = [[rng.choice([1, 0, -5, 4178, big]), big] + [rng.choice([1, -1, 2]) for _ in range(nb)]]
        if rng.random() < 0.5:
            Mw = [[rng.choice([1, 1, 2, 0]), abs(big) if abs(big) % 65536 == 0 else 131072 * rng.choice([1, 2, 3])] + [1] * nb]      # powers of two: the wrap lands on round values
        if rng.random() < 0.5:
            Mw.append([rng.choice([0, 1]), rng.choice([0, 1, -1])] + [rng.choice([1, 0, -1]) for _ in range(nb)])
        bw = [(-32768, 32767)] + [(0, 1)] * nb
        res.count("wide_column_big_coefficient")
        run_oracle(res, Mw, bw, rng=rng)
    for _ in range(6 if tier == "quick" else 60):
        # the sizes configurators produce (thousands of entries, a few per cent non-zero), with a planted solution
        M, bnds, x0 = gen_large_sparse_planted(rng)
        res.count("large_sparse_polyhedra")
        run_oracle(res, M, bnds, points=[x0], rng=rng)
    if tier != "quick":
        # exhaustive sub-domain: all 2-row x 2-column systems with entries in -2..2 over three fixed boxes
        vals = range(-2, 3)
        for box in ([(0, 1), (0, 1)], [(-1, 1), (0, 2)], [(0, 1), (2, 2)]):
            for row0 in itertools.product(vals, repeat=3):
                for row1 in itertools.product(vals, repeat=3):
                    if row1 < row0:
                        continue
                    run_oracle(res, [list(row0), list(row1)], box)
        res.exhaustive = True
        res.notes.append("exhaustive sub-domain: all systems of two rows over two columns with b and coefficients in -2..2 (row order irrelevant), "
                         "boxes {(0,1)x(0,1), (-1,1)x(0,2), (0,1)x(2,2)}")
    budget = 4000          # escalated search around the disagreeing cases (mutations of them + fresh systems)
    for i in failing[:6]:
        M, bnds, o = cases[i][1]
        ok, _ = run_oracle(res, M, bnds, o, rng=rng)
        found = not ok
        sub = random.Random(i)
        tries = 0
        while not found and tries < 1500 and budget > 0:
            tries += 1; budget -= 1
            M2, b2 = mutate(sub, M, bnds) if tries % 4 else gen_system(sub)[:2]
            ok, _ = run_oracle(res, M2, b2, rng=sub)
            found = not ok
        res.violation("corr", f"model of the reduction methods differs from the implementation on matrix {M} bounds {bnds}: implementation returned {o}",
                      {"check": "CorrPoly.check_reduce", "M": M, "bnds": [list(x) for x in bnds], "implementation_output": o, "failing_input_found": found})

def replay(payload):
    r = payload.get("replay", payload)
    M, bnds = r["M"], [tuple(x) for x in r["bnds"]]
    if r.get("op") == "reduce-args":
        rv, cv = r["rows"], r["cols"]
        R = c11_poly(M, bnds).reduce(None if rv is None else pnd.boolean_ndarray(np.array(rv, dtype=int)),
                                    None if cv is None else np.array([np.nan if c is None else float(c) for c in cv], dtype=float))
        pj = poly_json(R)
        keep_c = [j for j in range(len(bnds)) if cv is None or cv[j] is None]
        keep_r = [i for i in range(len(M)) if rv is None or not rv[i]]
        want = [[M[i][0] - sum(M[i][j + 1] * cv[j] for j in range(len(bnds)) if cv is not None and cv[j] is not None)] + [M[i][j + 1] for j in keep_c] for i in keep_r]
        print("reduce", rv, cv, "of", M, "->", pj, "expected rows", want)
        return 0 if (pj["M"] == want and pj["vars"] == ["0"] + ["v%d" % j for j in keep_c] and pj["index"] == ["r%d" % i for i in keep_r]) else 1
    fails, info = oracle_system(M, bnds, points=[r["point"]] if r.get("point") and len(r["point"]) == len(bnds) else None)
    try:
        o = observe(c11_poly(M, bnds))
        print("matrix", M, "bounds", bnds, "reducable_rows", o["rr"], "reducable_columns_approx", o["rca"], "reducable_rows_and_columns", o["loop"],
              "reduced", o["reduced"])
    except Exception as e:
        print("matrix", M, "bounds", bnds, "raised", type(e).__name__, e)
    for d, _ in fails:
        print("  FAILS:", d)
    return 1 if fails else 0
