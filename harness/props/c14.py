"""C14 — the configurator objective realises choices over defaults over stinginess.
Correspondence: cc.Any / cc.Xor constructors, default_prios, default_prio_vector, column order and
the objective vectors a recording solver receives from select(), against the Coq model
(ConfigObj.v + Compress.v).  Direct oracle: all pairs of feasible 0/1 points of small configurators;
the ranking induced by the recorded objective is compared with the lexicographic rule computed
independently (user priorities by magnitude, then defaults, then fewer ones)."""
import random, json, itertools
import numpy as np
import puan, puan.logic.plog as pg
import puan.modules.configurator as cc
from common import *
from plogio import *
from compressio import lz, llz, I64

RULE = ("configurators from the structured generator (defaulted and plain cc.Any / cc.Xor, AtMost, All, Any, Imply, AtLeast rules, "
        "nested, boolean leaves, explicit and generated ids) x priority dictionaries (positive, negative, ties, several levels, "
        "compound ids, unknown ids, empty); non-trivial = the dictionary has >= 2 distinct priority magnitudes and the "
        "configurator has >= 1 defaulted rule whose non-default branch exists; distinct by (configurator, dictionary)")

LEAVES = "abcdefgh"

# ----------------------------------------------------------------------------- generator
class CfgGen:
    def __init__(self, rng):
        self.rng = rng
        self.n = rng.randint(3, 6)
        self.names = list(LEAVES[:self.n])
        self.cnt = 0
        self.complements = []
        self.parents = []
    def leaf(self, nm=None):
        nm = nm or self.rng.choice(self.names)
        return {"k": "str", "id": nm} if self.rng.random() < 0.6 else {"k": "var", "id": nm, "b": [0, 1]}
    def leaves(self, kmin, kmax):
        k = min(self.rng.randint(kmin, kmax), self.n)
        return [self.leaf(nm) for nm in self.rng.sample(self.names, k)]
    def nid(self, p=0.6):
        self.cnt += 1
        return f"R{self.cnt}" if self.rng.random() < p else None
    def ccany(self, allow_compound=True):
        rng = self.rng
        ch = self.leaves(1, 4)
        if allow_compound and rng.random() < 0.25:
            ch.append({"k": rng.choice(["All", "Any"]), "ch": self.leaves(2, 2), "id": self.nid(0.8)})
        r = rng.random()
        atoms = [c["id"] for c in ch if c["k"] in ("str", "var")]
        if r < 0.6 and atoms:
            default = [rng.choice(atoms)]
        elif r < 0.7:
            default = ["zz"]                       # a default that is not among the alternatives
        elif r < 0.75 and len(atoms) > 1:
            default = rng.sample(atoms, 2)         # only the first one counts
        else:
            default = None
        rid = self.nid()
        if default and default[0] in atoms and len(ch) > 1 and all(c["k"] in ("str", "var") for c in ch):
            self.complements.append([c["id"] for c in ch if c["id"] != default[0]])
            if len(ch) > 2:
                self.parents.append((default[0], [c["id"] for c in ch if c["id"] != default[0]], rid))
        return {"k": "CcAny", "ch": ch, "default": default, "id": rid}
    def ccxor(self):
        rng = self.rng
        ch = self.leaves(2, 4)
        atoms = [c["id"] for c in ch]
        default = [rng.choice(atoms)] if rng.random() < 0.7 else None
        if default:
            self.complements.append([i for i in atoms if i != default[0]])
        return {"k": "CcXor", "ch": ch, "default": default, "id": self.nid()}
    def rule(self, depth=1):
        rng = self.rng
        r = rng.random()
        if rng.random() < 0.12 and self.n >= 4:
            # a defaulted Any whose ONLY non-default option is a plain group Any(x,y) that another rule also offers
            its = rng.sample(self.names, 4); d0, grp, other = its[0], its[1:3], its[3]
            group = lambda: {"k": "Any", "ch": [self.leaf(i) for i in grp], "id": None}
            self.pending = {"k": "Imply", "ch": [self.leaf(other), {"k": "Any", "ch": [group(), {"k": "All", "ch": self.leaves(2, 3), "id": None}], "id": None}], "id": self.nid()}
            return {"k": "CcAny", "ch": [self.leaf(d0), group()], "default": [d0], "id": self.nid()}
        if getattr(self, "pending", None) is not None:
            r, self.pending = self.pending, None
            return r
        if self.parents and rng.random() < 0.45:
            # an untagged twin of the PARENT of a non-default branch: the plain restructured form
            # Any(default, Any(rest)) under the same (generated or explicit) id as the defaulted rule
            d0, comp, rid = rng.choice(self.parents)
            twin = {"k": "Any", "ch": [self.leaf(d0), {"k": "Any", "ch": [self.leaf(i) for i in comp], "id": None}], "id": rid}
            return twin if rng.random() < 0.3 else {"k": "Imply", "ch": [self.leaf(), twin], "id": self.nid()}
        if self.complements and rng.random() < 0.3:
            # an untagged twin of a non-default branch: a plain Any over the same alternatives, with a
            # generated id (same id as the tagged node), as a rule or under an Imply
            twin = {"k": "Any", "ch": [self.leaf(i) for i in rng.choice(self.complements)], "id": None}
            return twin if rng.random() < 0.4 else {"k": "Imply", "ch": [self.leaf(), twin], "id": self.nid()}
        if r < 0.3:
            return self.ccany()
        if r < 0.5:
            return self.ccxor()
        if r < 0.6:
            return {"k": "AtMost", "v": rng.randint(1, 2), "ch": self.leaves(2, 4), "id": self.nid()}
        if r < 0.68:
            return {"k": "All", "ch": self.leaves(1, 2), "id": self.nid()}
        if r < 0.76:
            return {"k": "Any", "ch": self.leaves(2, 3), "id": self.nid()}
        if r < 0.82:
            return {"k": "AtLeast", "v": rng.randint(1, 2), "s": None, "ch": self.leaves(2, 4), "id": self.nid()}
        # Imply(condition, consequence), possibly over a defaulted rule
        cond = self.leaf() if rng.random() < 0.7 else {"k": "All", "ch": self.leaves(2, 2), "id": self.nid(0.8)}
        cons = self.leaf() if rng.random() < 0.4 or depth == 0 else (self.ccany(False) if rng.random() < 0.6 else self.ccxor())
        return {"k": "Imply", "ch": [cond, cons], "id": self.nid()}
    def config(self):
        k = self.rng.randint(1, 3)
        return {"k": "Stingy", "ch": [self.rule() for _ in range(k)], "id": "cfg"}

def gen_prios(rng, cfg, n):
    ids = [p.id for p in cfg.flatten() if p.id != cfg.id]
    leaves = [p.id for p in cfg.flatten() if is_var(p)]
    out = []
    for _ in range(n):
        r = rng.random()
        if r < 0.1:
            d = {}
        else:
            k = rng.randint(1, min(4, len(ids)))
            pool = leaves if rng.random() < 0.7 else ids
            keys = rng.sample(pool, min(k, len(pool)))
            mags = [1, 1, 2, 2, 3, 5, 7]
            if rng.random() < 0.15:
                # priorities are integers of any size an int64 holds (timestamps, prices in the smallest unit): neighbours far
                # beyond 2^53 are different priorities
                base = rng.choice([2 ** 53, 2 ** 60, 10 ** 18, 2 ** 62 - 5, 1_700_000_000_000_000_000])
                mags = [base, base + 1, base + 2, base - 1, 3]
            d = {i: rng.choice(mags) * rng.choice([1, 1, -1]) for i in keys}
            if rng.random() < 0.15:
                d["unknown-id"] = 4
        out.append(d)
    return out

# ----------------------------------------------------------------------------- observation
class Recorder:
    def __init__(self):
        self.objs = None
    def __call__(self, poly, objectives):
        self.objs = [[int(v) for v in np.asarray(o).tolist()] for o in objectives]
        return [(None, 0, 5)] * len(self.objs)

def observe(cfg, dicts):
    """default_prios, columns, dpv and the objectives select() hands to the solver"""
    dp = {k: int(v) for k, v in cfg.default_prios.items()}
    poly = cfg.ge_polyhedron
    cols = [v.id for v in poly.A.variables]
    dpv = [int(v) for v in np.asarray(poly.default_prio_vector).tolist()]
    rec = Recorder()
    list(cfg.select(*dicts, solver=rec))
    return dp, cols, dpv, rec.objs, poly

MISSING = []
def nondefault_columns(ast, cfg):
    """ids of the columns that stand for 'a non-default alternative of a defaulted Any/Xor is taken',
    found from the STRUCTURE (never from the .prio attribute): in a cc.Any built with a default that
    is one of several alternatives, it is the one sub-proposition that is not an original argument."""
    out = set()
    def visit_any(default, obj, atom_ids, compound_objs):
        if not default:
            return
        d0 = default[0]
        n_args = len(atom_ids) + len(compound_objs)
        if n_args > 1 and d0 in atom_ids and (compound_objs or any(i != d0 for i in atom_ids)):
            found = 0
            for c in obj.propositions:
                if is_var(c) and c.id in atom_ids:
                    continue
                if any(c is o for o in compound_objs):
                    continue
                out.add(c.id); found += 1
            if not found:
                # the rule has a default among several alternatives, yet no sub-proposition stands for "a non-default
                # alternative is taken": nothing can carry the default priority
                MISSING.append(str(getattr(obj, "id", "?")))
    def walk(a):
        if a["k"] in ("str", "var"):
            return
        obj = a["_obj"]
        if a["k"] == "CcAny":
            visit_any(a.get("default"), obj, [c["id"] for c in a["ch"] if c["k"] in ("str", "var")],
                      [c["_obj"] for c in a["ch"] if c["k"] not in ("str", "var")])
        elif a["k"] == "CcXor" and a.get("default"):
            anyp = [c for c in obj.propositions if c.value == 1][0]
            visit_any(a["default"], anyp, [c["id"] for c in a["ch"]], [])
        for c in a.get("ch", []):
            walk(c)
    del MISSING[:]
    walk(ast)
    return out

def build_tracked(ast, memo=None):
    """plogio.build, remembering which object each AST node became (ast['_obj'])"""
    memo = {} if memo is None else memo
    obj = build(ast, memo)
    def mark(a):
        if a["k"] not in ("str", "var"):
            a["_obj"] = memo[id(a)]
            for c in a.get("ch", []):
                mark(c)
    mark(ast)
    return obj

def strip(ast):
    if ast["k"] in ("str", "var"):
        return dict(ast)
    d = {k: v for k, v in ast.items() if k not in ("ch", "_obj")}
    d["ch"] = [strip(c) for c in ast.get("ch", [])]
    return d

# ----------------------------------------------------------------------------- known finding: shadowed default tag
def c14_findings():
    """entries of known_findings.json about C14 ('known' ones are classified, 'fixed' ones suppress nothing)"""
    return [f for f in load_findings() if f.get("property") == "C14"]

def shadowed_default(cfg, nondefault):
    """the pattern of the recorded defect: the non-default branch of a defaulted Any/Xor (found by
    structure) has a GENERATED id that a second, different object of the same tree also carries
    (an identical plain Any over the same alternatives): flatten()'s set() keeps only one of them and
    the `prio` attribute may be lost with the other."""
    nodes = all_nodes(cfg)
    for i in nondefault:
        objs = {id(x) for x in nodes if not is_var(x) and x.id == i}
        if len(objs) > 1:
            return True
    return False

def report(res, cfg, nondefault, desc, payload):
    """a counterexample: a KNOWN-FINDING only if it has exactly the recorded pattern AND the finding is listed as known"""
    known = [f for f in c14_findings() if f.get("status") == "known"]
    if known and shadowed_default(cfg, nondefault):
        res.known_finding(known[0]["id"], known[0].get("line") or
                          "the -2 tag of a defaulted Any/Xor is an attribute of a node with a generated id; an identical plain Any elsewhere in the model can shadow it in flatten(), default_prio_vector is then -1 on the non-default branch")
        res.count("known_finding_witnessed")
        return
    if isinstance(payload, dict) and RECENT:
        # what the process converted before (most recent last): a replay converts them first, in that order
        payload = dict(payload, earlier_configurators_in_this_process=[json.loads(json.dumps(a)) for a in RECENT[-4:-1]])
    res.violation("oracle", desc, payload)

RECENT = []
WITNESS = {"k": "Stingy", "id": "cfg", "ch": [
    {"k": "Imply", "id": "B", "ch": [{"k": "str", "id": "t"}, {"k": "Any", "id": None, "ch": [{"k": "str", "id": "c"}, {"k": "str", "id": "d"}]}]},
    {"k": "CcAny", "id": "Z", "default": ["a"], "ch": [{"k": "str", "id": "a"}, {"k": "str", "id": "c"}, {"k": "str", "id": "d"}]},
    {"k": "Imply", "id": "J", "ch": [{"k": "str", "id": "a"}, {"k": "All", "id": "PQR", "ch": [{"k": "str", "id": "p"}, {"k": "str", "id": "q"}, {"k": "str", "id": "r"}]}]}]}

# ----------------------------------------------------------------------------- independent lexicographic rule
def level_tuple(x, cols, u, nondefault):
    """scores of a 0/1 point, most important level first: user priorities by decreasing magnitude
    (+ wants 1, - wants 0), then 'no non-default branch', then 'few ones' — among un-prioritised columns"""
    mags = sorted({abs(v) for v in u if v != 0}, reverse=True)
    t = [sum((1 if u[j] > 0 else -1) * x[j] for j in range(len(cols)) if abs(u[j]) == m) for m in mags]
    t.append(-sum(x[j] for j in range(len(cols)) if u[j] == 0 and cols[j] in nondefault))
    t.append(-sum(x[j] for j in range(len(cols)) if u[j] == 0 and cols[j] not in nondefault))
    return tuple(t)

def feasible_points(poly, cap_cols=15):
    A = np.asarray(poly.A, dtype=np.int64)
    b = np.asarray(poly.b, dtype=np.int64)
    n = A.shape[1]
    if n > cap_cols:
        return None
    X = ((np.arange(2 ** n)[:, None] >> np.arange(n)[None, :]) & 1).astype(np.int64)
    ok = (X @ A.T >= b[None, :]).all(axis=1)
    return X[ok]

def cmp(a, b):
    return (a > b) - (a < b)

def oracle_pairs(res, ast, cfg, cols, dicts, objs, poly, nondefault, rng, max_pts):
    """all pairs of feasible points: objective ranking == lexicographic ranking"""
    pts = feasible_points(poly)
    if pts is None:
        res.count("oracle_skipped_too_many_columns")
        return True
    res.count("feasible_points", len(pts))
    if len(pts) == 0:
        res.count("infeasible_configurator")
        return True
    if len(pts) > max_pts:
        idx = rng.sample(range(len(pts)), max_pts)
        pts = pts[idx]
    else:
        res.count("all_feasible_points_enumerated")
    for d, obj in zip(dicts, objs):
        if any(abs(v) >= I64 for v in obj):
            continue
        u = [int(d.get(c, 0)) for c in cols]
        o = np.array(obj, dtype=object)
        vals = [int(sum(int(obj[j]) * int(x[j]) for j in range(len(cols)))) for x in pts]
        tups = [level_tuple([int(v) for v in x], cols, u, nondefault) for x in pts]
        res.evaluations += len(pts) * (len(pts) - 1) // 2
        order = sorted(range(len(pts)), key=lambda i: tups[i])
        # adjacent comparison in lexicographic order suffices for a total preorder; then all pairs by transitivity
        bad = None
        for a, b_ in zip(order, order[1:]):
            if cmp(tups[a], tups[b_]) != cmp(vals[a], vals[b_]):
                bad = (a, b_)
                break
        if bad is None:
            # the optimum: a feasible point with the lexicographically largest tuple has the largest objective
            best = max(range(len(pts)), key=lambda i: vals[i])
            if tups[best] != max(tups):
                bad = (best, max(range(len(pts)), key=lambda i: tups[i]))
        if bad is not None:
            a, b_ = bad
            x, y = [int(v) for v in pts[a]], [int(v) for v in pts[b_]]
            report(res, cfg, nondefault,
                   f"objective does not rank lexicographically: configurator {cfg!r} columns {cols} prios {d} objective {obj}: "
                   f"x={x} has level scores {tups[a]} and objective value {vals[a]}, y={y} has {tups[b_]} and {vals[b_]}",
                   {"op": "pair", "cfg": strip(ast), "prios": d, "x": x, "y": y})
            return False
    return True

# ----------------------------------------------------------------------------- constructor cases
def ctor_case(rng, res):
    """one cc.Any / cc.Xor constructor call observed with its argument objects"""
    g = CfgGen(rng)
    a = g.ccany() if rng.random() < 0.6 else g.ccxor()
    memo = {}
    args = [build(c, memo) for c in a["ch"]]
    var = a["id"]
    orc = IdOracle()
    with orc:
        # children may themselves be compounds with generated ids: rebuild inside the oracle
        memo = {}
        args = [build(c, memo) for c in a["ch"]]
        obj = (cc.Any if a["k"] == "CcAny" else cc.Xor)(*args, default=a["default"], variable=var)
    # argument objects as the constructor sees them after AtLeast.__init__'s reordering: non-str first
    nonstr = [x for x in args if not isinstance(x, str)]
    strs = [puan.variable(x) for x in args if isinstance(x, str)]
    dflt = [(d, 0, 1) for d in (a["default"] or [])]
    def term(it):
        dl = lst(f"({it.s(i)}, ({z(l)}, {z(h)}))" for i, l, h in dflt)
        ida = "None" if var is None else f"(Some ({it.s(var)}, (0, 1)))"
        return f"({orc.term(it)}, {lst(dump(x, it) for x in nonstr + strs)}, {dl}, {ida}, {dump(obj, it)})"
    res.count("ctor_" + a["k"] + ("_default" if a["default"] else "_plain"))
    if any(getattr(c, "prio", None) == -2 for c in all_nodes(obj)):
        res.count("ctor_tags_nondefault_branch")
    return a["k"], term, strip(a)

# ----------------------------------------------------------------------------- run
def run(res, tier, seed):
    rng = random.Random(seed * 1000003 + 14)
    res.rule = RULE
    quick = tier == "quick"
    n_cfg = 110 if quick else 1500
    n_dicts = 3
    dpv_cases, sel_cases, obj_cases = [], [], []
    done = 0
    tries = 0
    configs = []
    corpus = [json.loads(json.dumps(WITNESS))]      # regression: fix 8d06f82 (tag lost behind an untagged twin)
    while done < n_cfg and tries < n_cfg * 6:
        tries += 1
        g = CfgGen(random.Random(rng.getrandbits(64)))
        ast = corpus.pop() if corpus else g.config()
        try:
            cfg = build_tracked(ast)
            errs = [str(getattr(e, "value", e)) for e in cfg.errors()]
            if errs and errs != ["NON_UNIQUE_SUB_PROPOSITION_SET"]:
                res.count("skipped_invalid")
                continue
            if errs:
                # a defaulted rule next to its hand-written restructured twin (pg.Any(default, Any(rest)) under the
                # same id): validation rejects the pair (classes differ), the configurator still builds; the
                # oracles apply, the correspondence does not (equal-id entries of flatten() are hash-order dependent)
                res.count("class_mismatch_twin_rejected_by_validation")
            invalid = bool(errs)
            dicts = gen_prios(rng, cfg, n_dicts)
            dp, cols, dpv, objs, poly = observe(cfg, dicts)
        except Exception as e:
            res.count("build_error:" + type(e).__name__)
            continue
        done += 1
        RECENT.append(strip(ast)); del RECENT[:-5]
        if not corpus and rng.random() < 0.4:
            # the next configurator is this one with a defaulted cc.Any written by hand without its default
            # (plain Any(default, Any(rest)) under the same id): equal text, ids, values and bounds - other default priorities
            tw = json.loads(json.dumps(strip(ast)))
            for k_, r_ in enumerate(tw.get("ch", [])):
                if r_["k"] == "CcAny" and r_.get("default") and all(c["k"] in ("str", "var") for c in r_["ch"]) and len(r_["ch"]) >= 2 \
                        and r_["default"][0] in [c["id"] for c in r_["ch"]]:
                    d0 = r_["default"][0]
                    tw["ch"][k_] = {"k": "Any", "ch": [{"k": "str", "id": d0}, {"k": "Any", "ch": [c for c in r_["ch"] if c["id"] != d0], "id": None}], "id": r_.get("id")}
                    corpus.append(tw); res.count("followed_by_its_untagged_twin")
                    break
        nd = nondefault_columns(ast, cfg)
        if MISSING:
            report(res, cfg, nd, f"defaulted rule(s) {MISSING[:3]} of {cfg!r} have a default among several alternatives but no sub-proposition for the non-default branch: "
                                 f"the default priorities cannot prefer the default", {"op": "missing-branch", "cfg": strip(ast)})
        if shadowed_default(cfg, nd):
            res.count("untagged_twin_of_nondefault_branch")
        configs.append((ast, cfg, dicts, dp, cols, dpv, objs, poly, nd))
        res.count("columns_%02d" % len(cols))
        res.count("defaulted_rules_%d" % len(nd))
        # the structure oracle: -2 exactly on the non-default branches, -1 elsewhere
        exp_dpv = [-2 if c in nd else -1 for c in cols]
        res.evaluations += 1
        if exp_dpv != dpv:
            report(res, cfg, nd, f"default_prio_vector of {cfg!r} over columns {cols} is {dpv}; the non-default branches are {sorted(nd)}, expected {exp_dpv}",
                   {"op": "dpv", "cfg": strip(ast)})
        for d in dicts:
            mags = {abs(v) for k, v in d.items() if k in cols and v != 0}
            res.count("prio_levels_%d" % len(mags))
            if any(v < 0 for v in d.values()):
                res.count("negative_priorities")
            if len(set(abs(v) for v in d.values())) < len(d):
                res.count("tied_priorities")
            if len(mags) >= 2 and nd:
                res.nt(json.dumps([strip(ast), d], sort_keys=True))
        if invalid:
            continue
        dpv_cases.append((lambda it, cfg=cfg, dp=dp, cols=cols, dpv=dpv:
                          f"({dump(cfg, it)}, {lst(f'({it.s(k)}, {z(v)})' for k, v in dp.items())}, {lst(it.s(c) for c in cols)}, {lz(dpv)})",
                          {"cfg": strip(ast)}))
        sel_cases.append((lambda it, cfg=cfg, dicts=dicts, objs=objs:
                          f"({dump(cfg, it)}, {lst(lst(f'({it.s(k)}, {z(v)})' for k, v in d.items()) for d in dicts)}, {llz(objs)})",
                          {"cfg": strip(ast), "prios": dicts, "objectives": objs}))
        res.sample({"configurator": repr(cfg), "columns": cols, "default_prio_vector": dpv, "prios": dicts[0], "objective": objs[0]})
    # defaulted choices nested inside defaulted choices, built by the constructors and loaded from their JSON document
    jrng = random.Random(seed * 7963 + 14)
    for _ in range(24 if quick else 240):
        its = jrng.sample(list("abcdefgh"), jrng.randint(4, 6))
        inner = {"k": jrng.choice(["CcAny", "CcXor"]), "ch": [{"k": "str", "id": i} for i in its[:jrng.randint(2, 3)]], "default": [its[0]], "id": "In"}
        rest = [{"k": "str", "id": i} for i in its[3:]]
        outer = {"k": jrng.choice(["CcAny", "CcAny", "CcXor"]), "ch": rest + [inner], "default": [rest[0]["id"]], "id": "Out"}
        rules = [outer] + ([{"k": "Imply", "ch": [{"k": "str", "id": its[-1]}, {"k": "CcAny", "ch": [{"k": "str", "id": "y1"}, {"k": "str", "id": "y2"}], "default": ["y1"], "id": "Cons"}], "id": "I"}] if jrng.random() < 0.4 else [])
        ast = {"k": "Stingy", "ch": rules, "id": "cfg"}
        try:
            if build(json.loads(json.dumps(ast))).errors():
                continue
            bad = json_loaded_case(ast)
        except Exception as e:
            bad = f"raised {type(e).__name__}: {str(e)[:200]}"
        res.count("json_loaded_nested_defaults"); res.evaluations += 1
        if bad:
            res.violation("oracle", f"{bad}; configurator {json.dumps(ast)[:400]}", {"op": "json-loaded", "cfg": ast})
    # _vectors_from_prios alone on synthetic default/user vectors (wider than configurators produce)
    for _ in range(60 if quick else 1200):
        n = rng.randint(1, 9)
        dpv = [rng.choice([-1, -1, -1, -2, -2, -3, 0]) for _ in range(n)]
        us = [[rng.choice([0, 0, 0, 1, -1, 2, -2, 3, 5]) for _ in range(n)] for _ in range(rng.randint(1, 3))]
        poly = pnd_config(dpv)
        got = [[int(v) for v in np.asarray(o).tolist()] for o in poly._vectors_from_prios([dict((str(j), u[j]) for j in range(n) if u[j] != 0) for u in us])]
        obj_cases.append((f"({lz(dpv)}, {llz(us)}, {llz(got)})", {"dpv": dpv, "prios": us, "got": got}))
        res.count("synthetic_vectors")
        res.evaluations += 1
    # constructors
    ctor_any, ctor_xor = [], []
    for _ in range(120 if quick else 2000):
        try:
            k, term, a = ctor_case(rng, res)
        except Exception as e:
            res.count("ctor_error:" + type(e).__name__)
            continue
        (ctor_any if k == "CcAny" else ctor_xor).append((term, a))
        res.evaluations += 1
    imp = "Puan.Plog Puan.Corr Puan.Compress Puan.ConfigObj Puan.CorrCompress"
    results = []
    for name, ctype, fn, cs in (
        ("dpv", "prop * list (ident * Z) * list ident * list Z", "check_dpv", dpv_cases),
        ("select", "prop * list (list (ident * Z)) * list (list Z)", "check_select", sel_cases),
        ("objective", "list Z * list (list Z) * list (list Z)", "check_objective", obj_cases),
        ("ccany", "idtable * list prop * list ivar * option ivar * prop", "check_cc_any", ctor_any),
        ("ccxor", "idtable * list prop * list ivar * option ivar * prop", "check_cc_xor", ctor_xor),
    ):
        n, failing, errs = run_case_shards("C14", name, "", ctype, fn, cs, imports=imp, shard=150)
        res.corr_cases += n
        res.evaluations += n
        for e in errs:
            res.violation("corr", f"correspondence shard failed ({fn}): " + e, {"check": fn, "error": e})
        results.append((name, fn, cs, failing))
    # direct oracle: all pairs of feasible points
    max_pts = 160 if quick else 400
    ok_all = True
    for ast, cfg, dicts, dp, cols, dpv, objs, poly, nd in configs:
        ok_all &= oracle_pairs(res, ast, cfg, cols, dicts, objs, poly, nd, rng, max_pts)
    for name, fn, cs, failing in results:
        for i in failing[:6]:
            payload = cs[i][1]
            found = False
            if name in ("dpv", "select"):
                # escalate: the same configurator with many more dictionaries, every feasible point
                found = escalate(res, payload["cfg"], rng)
            res.violation("corr", f"model {fn} differs from the implementation on {json.dumps(payload, default=str)[:600]}",
                          {"check": "CorrCompress." + fn, **{k: v for k, v in payload.items()}, "failing_input_found": found})

def pnd_config(dpv):
    import puan.ndarray as pnd
    n = len(dpv)
    return pnd.ge_polyhedron_config(np.zeros((1, n + 1), dtype=np.int64), default_prio_vector=np.array(dpv, dtype=np.int64),
                                    variables=[puan.variable("0")] + [puan.variable(str(j)) for j in range(n)])

def escalate(res, ast_j, rng):
    ast = json.loads(json.dumps(ast_j))
    try:
        cfg = build_tracked(ast)
        dicts = gen_prios(rng, cfg, 40) + [{}]
        dp, cols, dpv, objs, poly = observe(cfg, dicts)
    except Exception as e:
        return False
    nd = nondefault_columns(ast, cfg)
    exp_dpv = [-2 if c in nd else -1 for c in cols]
    if exp_dpv != dpv:
        report(res, cfg, nd, f"default_prio_vector of {cfg!r} over columns {cols} is {dpv}; the non-default branches are {sorted(nd)}, expected {exp_dpv}",
               {"op": "dpv", "cfg": strip(ast)})
        return True
    return not oracle_pairs(res, ast, cfg, cols, dicts, objs, poly, nd, rng, 600)

def json_loaded_case(ast):
    """the configurator built by the constructors and the same one loaded from its JSON document: same default priorities,
    columns and default priority vector (explicit ids only, no negation: nothing the round trip is known to rename)"""
    c1 = build(json.loads(json.dumps(ast)))
    c2 = cc.StingyConfigurator.from_json(json.loads(json.dumps(c1.to_json())))
    o1, o2 = observe(c1, [{}])[:3], observe(c2, [{}])[:3]
    for name, a, b_ in zip(("default_prios", "columns", "default_prio_vector"), o1, o2):
        if a != b_:
            return f"{name} of the configurator loaded from JSON is {b_}, of the constructed one {a}"
    return None

def replay(payload):
    r = payload.get("replay", payload)
    if r.get("op") == "json-loaded":
        bad = json_loaded_case(r["cfg"])
        print("configurator", json.dumps(r["cfg"])[:400], "->", "FAILS: " + bad if bad else "holds")
        return 1 if bad else 0
    for e in r.get("earlier_configurators_in_this_process", []):
        try:
            c0 = build_tracked(json.loads(json.dumps(e))); c0.ge_polyhedron; list(c0.select({}, solver=Recorder()))
        except BaseException:
            pass
    ast = json.loads(json.dumps(r["cfg"]))
    cfg = build_tracked(ast)
    nd = nondefault_columns(ast, cfg)
    if r.get("op") == "missing-branch":
        print("configurator", cfg, "defaulted rules without a non-default branch:", MISSING)
        return 1 if MISSING else 0
    if r.get("op") == "dpv":
        poly = cfg.ge_polyhedron
        cols = [v.id for v in poly.A.variables]
        dpv = [int(v) for v in np.asarray(poly.default_prio_vector).tolist()]
        exp = [-2 if c in nd else -1 for c in cols]
        print("configurator", cfg, "columns", cols, "default_prio_vector", dpv, "expected", exp)
        return 0 if dpv == exp else 1
    d = r["prios"]
    dp, cols, dpv, objs, poly = observe(cfg, [d])
    obj = objs[0]
    u = [int(d.get(c, 0)) for c in cols]
    x, y = r["x"], r["y"]
    vx, vy = sum(a * b for a, b in zip(obj, x)), sum(a * b for a, b in zip(obj, y))
    tx, ty = level_tuple(x, cols, u, nd), level_tuple(y, cols, u, nd)
    print("configurator", cfg, "columns", cols, "prios", d, "objective", obj)
    print(" x", x, "levels", tx, "objective value", vx)
    print(" y", y, "levels", ty, "objective value", vy)
    return 0 if cmp(tx, ty) == cmp(vx, vy) else 1
