"""C01 — logic-to-polyhedron encoding agrees with evaluation on every assignment."""
import random, json
import numpy as np
import puan, puan.logic.plog as pg
from common import *
from plogio import *

RULE = ("validated plain models (depth 0-4, every connective incl. Xor/XNor/Imply/Not, explicit signs, shared sub-propositions, boolean and "
        "integer leaves incl. negative and 16-bit ranges, no pre-fixed sub-proposition) x in-bounds leaf assignments (exhaustive when the box has "
        "<= cap points, else random with corner bias), asserted and non-asserted polyhedron; non-trivial = depth >= 2 or a shared node or an "
        "integer leaf; distinct by canonical text of the model. Every third nested model is followed by a look-alike sibling (same ids/values/signs, deeper leaf "
        "bounds (lo-d, hi+d) with the same lower+upper) converted in the same process")

def poly_obs(m, active):
    ph = m.to_ge_polyhedron(active)
    cols = [(v.id, (int(v.bounds.lower), int(v.bounds.upper))) for v in ph.variables[1:]]
    rows = [[int(x) for x in r] for r in np.asarray(ph).tolist()]
    return cols, rows

@guarded(lambda e, res, ast, m, *a, **k: {"op": "encode", "model": ast_json(ast), "active": True, "env": {},
                                           "problem": f"to_ge_polyhedron / evaluate raised {type(e).__name__}: {str(e)[:160]}"})
def oracle_model(res, ast, m, rng, n_env, cap):
    polys = {a: poly_obs(m, a) for a in (True, False)}
    lv = leaves_of(m)
    envs = all_envs(lv, cap) if cap else None
    if envs is None:
        envs = [random_env(lv, rng) for _ in range(n_env)]
        # neighbouring assignments asked right after each other on the same object (an enumeration does that): a leaf
        # stepping between -2 and -1, and between its two lowest values
        extra = []
        for l in lv:
            lo, hi = int(l.bounds.lower), int(l.bounds.upper)
            if hi > lo and envs:
                a, b_ = (-2, -1) if lo <= -2 and hi >= -1 else (lo, lo + 1)
                base = dict(envs[0])
                extra += [dict(base, **{l.id: a}), dict(base, **{l.id: b_}), dict(base, **{l.id: a})]
        envs = envs + extra[:9]
    for env in envs:
        vals = {}
        top = ref_eval_all(m, env, vals)
        # the library's own evaluation, on this same object, call after call
        try:
            lib = {k: v.as_tuple() for k, v in m.evaluate_propositions(typed_env(env)).items()}
            lib_top = m.evaluate(typed_env(env)).as_tuple()
        except Exception as e:
            return {"op": "encode", "model": ast_json(ast), "active": True, "env": env, "problem": f"evaluate raised {type(e).__name__}: {str(e)[:120]}"}
        res.evaluations += 1
        wrong = [k for k, b_ in lib.items() if k in vals and b_ != (vals[k], vals[k])]
        if wrong or lib_top != (top, top):
            return {"op": "encode", "model": ast_json(ast), "active": True, "env": env, "history": [e for e in envs[: envs.index(env)]][-4:],
                    "problem": f"the library evaluates the model to {lib_top} (nodes {wrong[:3]} differ) where sign*sum>=value gives {top}: the extended assignment the property speaks of is not the one the polyhedron was built for"}
        for active in (True, False):
            res.evaluations += 1
            cols, rows = polys[active]
            try:
                x = [vals[c] for c, _ in cols]
            except KeyError as e:
                return {"op": "encode", "model": ast_json(ast), "active": active, "env": env, "problem": f"column {e} of the polyhedron is not a node of the model"}
            ok = all(r[0] <= sum(a * b_ for a, b_ in zip(r[1:], x)) for r in rows)
            want = (top == 1) if active else True
            if ok != want:
                return {"op": "encode", "model": ast_json(ast), "active": active, "env": env,
                        "problem": f"active={active}: extended assignment {'satisfies' if ok else 'violates'} the system but the model evaluates to {top}"}
    return None

def lookalike(ast, d, depth=0, memo=None):
    """a sibling model: same classes, ids, values, signs; every leaf at depth >= 2 gets bounds (lo-d, hi+d)
    (same lower+upper, i.e. same Bounds hash; the top node's __eq__/__hash__ cannot tell the two apart)"""
    memo = {} if memo is None else memo
    if id(ast) in memo:
        return memo[id(ast)]
    if ast["k"] in ("str", "var"):
        if depth >= 2:
            lo, hi = ast.get("b", [0, 1])
            r = {"k": "var", "id": ast["id"], "b": [lo - d, hi + d]}
        else:
            r = dict(ast)
    else:
        r = {k: v for k, v in ast.items() if k != "ch"}
        r["ch"] = [lookalike(c, d, depth + 1, memo) for c in ast.get("ch", [])]
    memo[id(ast)] = r
    return r

# fixed cases that run first: corner inputs on which the model once differed from the code
CORPUS = [
    # childless compounds of different classes with one id: flatten() lists X twice, the polyhedron has ONE column X
    {"k": "Any", "id": "T", "ch": [{"k": "Any", "id": "P", "ch": [{"k": "All", "id": "X", "ch": []}, {"k": "str", "id": "p"}]},
                                   {"k": "Any", "id": "Q", "ch": [{"k": "AtLeast", "v": 0, "s": None, "id": "X", "ch": []}, {"k": "str", "id": "q"}]}]},
]

def run(res, tier, seed):
    rng = random.Random(seed * 1000003 + 1)
    res.rule = RULE
    n_models = 400 if tier == "quick" else 5000
    models = [(a, build(a)) for a in CORPUS] + gen_valid(rng, n_models, res, depth_max=4, want=lambda m: plain(m), wide=0.03)
    res.count("corpus_cases", len(CORPUS))
    cases = []
    for ast, m in models:
        res.count("depth_%d" % depth_of(m))
        ids = [x.id for x in all_nodes(m) if not is_var(x)]
        shared = len(ids) != len(set(ids))
        intl = any(l.bounds.as_tuple() != (0, 1) for l in leaves_of(m))
        if shared: res.count("shared_node")
        if intl: res.count("integer_leaves")
        if any(l.bounds.upper - l.bounds.lower > 1000 for l in leaves_of(m)): res.count("wide_leaf")
        if depth_of(m) >= 2 or shared or intl:
            res.nt(canon(m))
        bad = oracle_model(res, ast, m, rng, 6 if tier == "quick" else 20, 0 if tier == "quick" else 400)
        if bad:
            res.violation("oracle", f"{bad['problem']} on {m!r} at {bad['env']}", bad)
        for active in (True, False):
            cols, rows = poly_obs(m, active)
            cases.append((lambda it, m=m, active=active, cols=cols, rows=rows:
                          f"({b(active)}, {dump(m, it)}, {lst(f'({it.s(c)}, ({z(lo)}, {z(hi)}))' for c, (lo, hi) in cols)}, {lst(lst(z(v) for v in r) for r in rows)})", (ast, active)))
        res.sample({"model": repr(m), "rows_active": poly_obs(m, True)[1][:4]})
        # look-alike sibling converted right after the original (process-wide state keyed by __eq__/__hash__ must not leak)
        if depth_of(m) >= 2 and len(cases) % 3 == 0:
            ast2 = lookalike(ast, rng.choice([1, 2]))
            try:
                m2 = build(ast2)
                if not is_var(m2) and not m2.errors() and plain(m2):
                    res.count("lookalike_sibling")
                    bad = oracle_model(res, ast2, m2, rng, 6 if tier == "quick" else 20, 0 if tier == "quick" else 400)
                    if bad:
                        res.violation("oracle", f"{bad['problem']} on {m2!r} at {bad['env']} (converted after its look-alike {m!r})",
                                      dict(bad, converted_before=ast_json(ast)))
                    for active in (True, False):
                        cols, rows = poly_obs(m2, active)
                        cases.append((lambda it, m=m2, active=active, cols=cols, rows=rows:
                                      f"({b(active)}, {dump(m, it)}, {lst(f'({it.s(c)}, ({z(lo)}, {z(hi)}))' for c, (lo, hi) in cols)}, {lst(lst(z(v) for v in r) for r in rows)})", (ast2, active)))
            except Exception as e:
                res.count("lookalike_build_error:" + type(e).__name__)
    # negatively signed nodes (written by negate() / Not / Imply or with sign=-1) directly over a leaf whose range is a whole
    # machine integer range, evaluated at the two ends of that range
    for _ in range(40 if tier == "quick" else 400):
        lo, hi = rng.choice([(-32768, 32767), (-128, 127), (-32768, 0), (-128, 5)])
        tn = rng.choice(["t", "tt"])        # typed_env decides by the id's length and the value which values are passed as narrow numpy scalars
        t = {"k": "var", "id": tn, "b": [lo, hi]}
        inner = {"k": "AtLeast", "v": rng.randint(-3, 6), "s": rng.choice([None, 1, -1]), "ch": [t] + ([{"k": "str", "id": "x"}] if rng.random() < 0.5 else []), "id": rng.choice(["A", None])}
        ast = rng.choice([{"k": "Not", "ch": [inner], "id": None}, {"k": "Imply", "ch": [inner, {"k": "str", "id": "y"}], "id": rng.choice([None, "I"])},
                          {"k": "AtLeast", "v": rng.randint(-3, 3), "s": -1, "ch": [t, {"k": "str", "id": "x"}], "id": "N"}, inner])
        try:
            m = build(ast)
            if is_var(m) or m.errors() or not plain(m):
                continue
        except Exception:
            continue
        res.count("machine_range_leaf_under_negative_node")
        polys_bad = None
        for tv in (lo, hi, lo + 1):
            env = {l.id: (tv if l.id == tn else rng.choice([0, 1])) for l in leaves_of(m)}
            try:
                got = m.evaluate(typed_env(env)).as_tuple(); want = ref_eval(m, env)
            except Exception as e:
                got, want = ("raised", type(e).__name__), None
            res.evaluations += 1
            if got != (want, want):
                polys_bad = {"op": "encode", "model": ast_json(ast), "active": True, "env": env,
                             "problem": f"the library evaluates the model to {got} at {env} where sign*sum>=value gives {want}: the extended assignment the property speaks of is not the one the polyhedron was built for"}
                break
        if polys_bad:
            res.violation("oracle", f"{polys_bad['problem']} on {m!r}", polys_bad)
    # same-id twins that differ in one field (sign, value, a leaf's bounds) over leaves with symmetric bounds: validation has to
    # reject them (one id, two definitions); whenever it accepts one, it is a validated model and the property speaks about it
    for _ in range(80 if tier == "quick" else 800):
        names = rng.sample(list("abcdxyz"), rng.randint(1, 3))
        sym = lambda: rng.choice([(-1, 1), (-2, 2), (-3, 3), (0, 1), (0, 0), (-1, 0)])
        kids = [{"k": "var", "id": n_, "b": list(sym())} for n_ in names]
        v = rng.randint(-2, 2)
        b1 = {"k": "AtLeast", "v": v, "s": rng.choice([1, -1]), "ch": [dict(c) for c in kids], "id": "B"}
        b2 = json.loads(json.dumps(b1))
        how = rng.choice(["sign", "sign", "value", "leaf-bounds"])
        if how == "sign":
            b2["s"] = -b1["s"]
        elif how == "value":
            b2["v"] = {-1: -2, -2: -1}.get(v, v + 1)
        else:
            c0 = b2["ch"][0]; lo, hi = c0["b"]; c0["b"] = [lo - 1, hi + 1]
        ast = {"k": rng.choice(["All", "Any"]), "id": rng.choice(["T", None]),
               "ch": [{"k": "Any", "ch": [b1, {"k": "str", "id": "p"}], "id": "P"}, {"k": "Any", "ch": [b2, {"k": "str", "id": "q"}], "id": "Q"}]}
        try:
            m = build(ast)
            if m.errors():
                res.count("one_field_twin_rejected_by_validation"); continue
        except Exception as e:
            res.count("one_field_twin_error:" + type(e).__name__); continue
        res.count("one_field_twin_accepted_by_validation")
        bad = oracle_model(res, ast, m, rng, 0, 4096)
        if bad:
            res.violation("oracle", f"{bad['problem']} on {m!r} at {bad['env']} (accepted by errors(); the id B has two definitions differing in {how})", bad)
    # a model that is one compound without sub-propositions (constant true or constant false: the sum over nothing is 0); the
    # documentation asks for a non-empty list, the constructors and errors() accept the empty one
    for ast0 in ([{"k": "AtLeast", "v": v_, "s": s_, "ch": [], "id": i_} for v_ in (1, 0, -1, 2) for s_ in (None, 1, -1) for i_ in ("E", None)]
                 + [{"k": k_, "ch": [], "id": "E"} for k_ in ("Any", "All")] + [{"k": "AtMost", "v": v_, "ch": [], "id": "E"} for v_ in (-1, 0, 1)]):
        try:
            m = build(ast0)
            if m.errors():
                continue
        except Exception:
            continue
        res.count("childless_top_node")
        bad = oracle_model(res, ast0, m, rng, 0, 16)
        if bad:
            res.violation("oracle", f"{bad['problem']} on {m!r} at {bad['env']}", bad)
    # unnamed compounds over DIFFERENT leaves whose generated ids coincide (the id digest joins the child ids without a separator:
    # "ab","c" and "a","bc"; trailing digits against the threshold): one id, two definitions - rejected, or judged as a validated model
    for _ in range(40 if tier == "quick" else 400):
        (l1, l2) = rng.choice([(["ab", "c"], ["a", "bc"]), (["a", "bc"], ["abc"]), (["x1", "y"], ["x", "1y"]), (["ab", "cd"], ["a", "bcd"]), (["p", "qr", "s"], ["pq", "rs"])])
        v = rng.choice([1, 1, 2, 0])
        kind = rng.choice(["AtLeast", "AtLeast", "Any", "All"])
        mk = lambda ls: {"k": kind, "v": v, "s": None, "ch": [{"k": "str", "id": x} for x in ls], "id": None}
        ast = {"k": rng.choice(["All", "Any"]), "id": rng.choice(["T", None]),
               "ch": [{"k": "Any", "ch": [mk(l1), {"k": "str", "id": "u"}], "id": "P"}, {"k": rng.choice(["Any", "All"]), "ch": [mk(l2), {"k": "str", "id": "w"}], "id": "Q"}]}
        try:
            m = build(ast)
            if m.errors():
                res.count("generated_id_collision_rejected_by_validation"); continue
        except Exception as e:
            res.count("generated_id_collision_error:" + type(e).__name__); continue
        ids = [x.id for x in all_nodes(m) if not is_var(x)]
        if len(set(ids)) == len(ids):
            res.count("generated_ids_did_not_collide"); continue
        res.count("generated_id_collision_accepted_by_validation")
        bad = oracle_model(res, ast, m, rng, 0, 4096)
        if bad:
            res.violation("oracle", f"{bad['problem']} on {m!r} at {bad['env']} (accepted by errors(); two unnamed sub-propositions over different leaves share one generated id)", bad)
    n, failing, errs = run_case_shards("C01", "encode", "", "bool * prop * list (ident * (Z * Z)) * list (list Z)", "check_encode", cases)
    res.corr_cases += n; res.evaluations += n
    for e in errs:
        res.violation("corr", "correspondence shard failed: " + e, {"check": "Corr.check_encode", "error": e})
    for i in failing[:10]:
        ast, active = cases[i][1]
        m = build(ast)
        bad = oracle_model(res, ast, m, rng, 3000, 20000)
        if bad:
            res.violation("oracle", f"{bad['problem']} on {m!r} at {bad['env']}", bad)
        res.violation("corr", f"model to_ge_polyhedron({active}) differs from implementation on {m!r}: implementation rows {poly_obs(m, active)[1]}",
                      {"check": "Corr.check_encode", "model": ast_json(ast), "active": active, "failing_input_found": bool(bad)})

def replay(payload):
    r = payload.get("replay", payload)
    if r.get("converted_before"):
        m0 = build(r["converted_before"]); m0.to_ge_polyhedron(True); m0.to_ge_polyhedron(False)
    m = build(r["model"])
    if "env" not in r:
        print("model", m, "polyhedron", poly_obs(m, r.get("active", True))); return 1
    for e in r.get("history", []):
        try: m.evaluate_propositions(dict(e)); m.evaluate(dict(e))
        except Exception: pass
    vals = {}
    top = ref_eval_all(m, r["env"], vals)
    try:
        lib_top = m.evaluate(typed_env(r["env"])).as_tuple()
    except Exception as e:
        print("evaluate raised", type(e).__name__, e); return 1
    if lib_top != (top, top):
        print("model", m, "env", r["env"], "library evaluates to", lib_top, "arithmetic truth function gives", top); return 1
    cols, rows = poly_obs(m, r["active"])
    x = [vals.get(c) for c, _ in cols]
    ok = None not in x and all(row[0] <= sum(a * b_ for a, b_ in zip(row[1:], x)) for row in rows)
    want = (top == 1) if r["active"] else True
    print("model", m, "env", r["env"], "active", r["active"], "model value", top, "system satisfied", ok)
    return 0 if ok == want else 1
