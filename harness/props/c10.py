"""C10 — validation (AtLeast.errors) accepts exactly the well-defined models.

Adversarial AST generator (reused ids with different definitions, same-id leaves with different
bounds, by-id leaf references, repeated children, id cycles, shared identical sub-propositions,
trees with distinct ids incl. '-' ids, generated-id coincidences), an independent
well-definedness checker over the puan objects (never hashes / set()s a puan object), the
correspondence of errors() with the Coq model Errors.errors2, known findings D4 / D12.

Direct oracle (analyse/oracle_one), on every generated model:
  errors()==[]  =>  well-defined (acyclic id graph, no repeated child id, one definition per id);
                    an accepted ill-defined model is KNOWN (D4: only hash-colliding bounds differ;
                    D12: additionally childless compounds with values -1/-2) or a VIOLATION
  tree with pairwise distinct ids            =>  errors()==[]
  only identical sub-propositions are shared =>  errors()==[]
  well-defined and one class per id          =>  errors()==[]   (covers by-id leaf references)"""
import random, json, copy, itertools
import puan, puan.logic.plog as pg
from common import *
from plogio import *

RULE = ("adversarial models (depth 0-3): trees with pairwise distinct ids (incl. '-' ids), shared identical "
        "sub-propositions, and mutations of those: redefined explicit ids (bounds/sign/value/children/class), same-id "
        "leaves with other bounds, by-id leaf references to compounds, repeated children, id cycles, generated-id "
        "coincidences; non-trivial = at least one id occurs more than once among all node/leaf occurrences of the "
        "model; distinct by canonical text of the model")

ERR = {"CIRCULAR_DEPENDENCIES": "CIRCULAR", "AMBIVALENT_VARIABLE_DEFINITIONS": "AMBIVALENT",
       "NON_UNIQUE_SUB_PROPOSITION_SET": "NON_UNIQUE"}

# ----------------------------------------------------------------------------- independent checker
def pyh(n):
    n = int(n)
    return -2 if n == -1 else n

def bnd(p):
    return (int(p.bounds.lower), int(p.bounds.upper))

def bhash(b):
    """hash(Bounds(lo, hi)): the hash OF hash(lo)+hash(hi) (a __hash__ result of -1 becomes -2)"""
    return pyh(pyh(b[0]) + pyh(b[1]))

def occurrences(m):
    """every node / leaf occurrence of the object tree (a shared object is listed once per path)"""
    out, stack = [], [m]
    while stack:
        x = stack.pop()
        out.append(x)
        if not is_var(x):
            stack.extend(x.propositions)
    return out

def cls_name(x):
    """the class itself, not only its name: puan.modules.configurator.Any and puan.logic.plog.Any are different classes"""
    t = type(x)
    return t.__module__ + "." + t.__qualname__

def sig(p, with_class):
    if is_var(p):
        return ("v", p.id, bnd(p))
    return ("c", cls_name(p) if with_class else "", p.id, bnd(p), int(p.sign), int(p.value),
            tuple(sig(c, with_class) for c in p.propositions))

def diff(a, b, out):
    """kinds of differences between two occurrences carrying the same id"""
    ba, bb = bnd(a), bnd(b)
    if ba != bb:
        if bhash(ba) != bhash(bb):
            out.add("bounds")
        elif pyh(ba[0]) + pyh(ba[1]) == pyh(bb[0]) + pyh(bb[1]):
            out.add("bounds-collide")        # equal hash(lower)+hash(upper)
        else:
            out.add("bounds-collide-m1")     # sums -1 and -2: hash() of a __hash__ result -1 is -2
    if is_var(a) or is_var(b):
        return          # a leaf may refer to a compound by id: only the bounds have to agree
    if int(a.sign) != int(b.sign):
        out.add("sign")
    ca, cb = list(a.propositions), list(b.propositions)
    if int(a.value) != int(b.value):
        out.add("value-collide" if pyh(a.value) == pyh(b.value) and not ca and not cb else "value")
    if len(ca) != len(cb):
        out.add("children")
        return
    for x, y in zip(ca, cb):
        if is_var(x) != is_var(y) or x.id != y.id:
            out.add("children")
        else:
            diff(x, y, out)

def id_cycle(occ):
    """is there an id i with a non-empty path i -> ... -> i in 'a compound with id a has a child with id b'"""
    g = {}
    for x in occ:
        if not is_var(x):
            g.setdefault(x.id, [])
            for c in x.propositions:
                if c.id not in g[x.id]:
                    g[x.id].append(c.id)
    color = {}
    for root in g:
        if color.get(root):
            continue
        stack = [(root, 0)]
        color[root] = 1
        while stack:
            n, k = stack[-1]
            succ = g.get(n, [])
            if k < len(succ):
                stack[-1] = (n, k + 1)
                s = succ[k]
                if color.get(s) == 1:
                    return True
                if not color.get(s):
                    color[s] = 1
                    stack.append((s, 0))
            else:
                color[n] = 2
                stack.pop()
    return False

def analyse(m):
    occ = occurrences(m)
    groups = {}
    for x in occ:
        groups.setdefault(x.id, []).append(x)
    diffs = set()
    for i, l in groups.items():
        for a, b in itertools.combinations(l[:12], 2):
            if a is not b:
                diff(a, b, diffs)
    dup = False
    for x in occ:
        if not is_var(x):
            ids = [c.id for c in x.propositions]
            if len(ids) != len({*ids}):
                dup = True
    cyc = id_cycle(occ)
    repeated = any(len(l) > 1 for l in groups.values())
    identical = True
    for i, l in groups.items():
        s0 = sig(l[0], True)
        if any(sig(x, True) != s0 for x in l[1:]):
            identical = False
    coherent = True
    for i, l in groups.items():
        cl = [cls_name(x) for x in l if not is_var(x)]
        if any(c != cl[0] for c in cl[1:]):
            coherent = False
    return {"cyclic": cyc, "dup_child": dup, "diffs": diffs, "repeated": repeated, "class_coherent": coherent,
            "ill": cyc or dup or bool(diffs),
            "tree_distinct": not repeated,
            "share_only": identical and not dup}

def classify_accepted_ill(a):
    """an accepted ill-defined model: which known finding explains it completely (None = new)"""
    if a["cyclic"] or a["dup_child"]:
        return None
    if a["diffs"] <= {"bounds-collide", "bounds-collide-m1"}:
        return "D4"
    if a["diffs"] <= {"bounds-collide", "bounds-collide-m1", "value-collide"}:
        return "D12"
    return None

def describe(a):
    r = []
    if a["cyclic"]: r.append("the id graph has a cycle")
    if a["dup_child"]: r.append("a node lists two children with the same id")
    if a["diffs"]: r.append("an id has two definitions differing in: " + ", ".join(sorted(a["diffs"])))
    return "; ".join(r)

# ----------------------------------------------------------------------------- generator
LEAF_BOUNDS = [[0, 1]] * 6 + [[0, 3], [1, 2], [-1, 1], [-2, 1], [-3, 2], [-4, 2], [-2, 0], [0, 5], [2, 2], [-5, -1], [-5, -2], [-32768, 32767],
               [0, 32767], [0, 32768], [0, 40000], [-40000, 0], [-32768, 0], [-32769, 5]]      # at and beyond the default integer range
OWN_BOUNDS = [[0, 1], [0, 0], [1, 1]]

def collide_with(bd, rng):
    """other bounds with the same pyhash(lo)+pyhash(hi)"""
    lo, hi = bd
    cands = []
    if lo == -1: cands.append([-2, hi])
    if lo == -2 and hi >= -1: cands.append([-1, hi])
    if hi == -1 and lo <= -2: cands.append([lo, -2])
    if hi == -2 and lo <= -2: cands.append([lo, -1])
    s = bhash(bd)
    for d in (1, 2, 3, -1, -2):
        l2 = lo - d
        for h2 in range(l2, l2 + 12):
            if [l2, h2] != [lo, hi] and bhash([l2, h2]) == s and l2 <= h2:
                cands.append([l2, h2])
    cands = [c for c in cands if c and c != [lo, hi] and c[0] <= c[1]]
    cross = [c for c in cands if pyh(c[0]) + pyh(c[1]) != pyh(lo) + pyh(hi)]     # sum -1 against sum -2
    if cross and rng.random() < 0.7:
        return rng.choice(cross)
    return rng.choice(cands) if cands else None

M1_BOUNDS = [[-1, 1], [-2, 1], [-3, 2], [-2, 0], [-4, 2], [-3, 1], [-1, 0], [-6, 5], [-7, 5]]

def other_bounds(bd, rng):
    """different bounds with a different hash sum"""
    for _ in range(50):
        c = rng.choice(LEAF_BOUNDS + [[bd[0], bd[1] + 1], [bd[0] - 1, bd[1]], [bd[0] + 0, bd[1] + 2]])
        if c != list(bd) and c[0] <= c[1] and bhash(c) != bhash(bd):
            return list(c)
    return [bd[0], bd[1] + 3]

class Adv:
    def __init__(self, rng, dash=False):
        self.rng = rng
        self.dash = dash
        self.n = 0
        self.leafnames = list("xyzuvw") + (["x-y", "b-c", "a-b", "c"] if dash else [])
        rng.shuffle(self.leafnames)
        self.lb = {}
    def fresh_leaf(self):
        rng = self.rng
        if self.leafnames:
            nm = self.leafnames.pop()
        else:
            self.n += 1
            nm = f"l{self.n}"
        b = list(rng.choice(LEAF_BOUNDS))
        self.lb[nm] = b
        if b == [0, 1] and rng.random() < 0.4:
            return {"k": "str", "id": nm}
        return {"k": "var", "id": nm, "b": b}
    def fresh_id(self, explicit=0.8):
        self.n += 1
        if self.rng.random() > explicit:
            return None
        if self.dash and self.rng.random() < 0.5:
            return self.rng.choice(["A", "B", "A-b", "A-x", "N"]) + f"-{self.n}" if self.rng.random() < 0.5 else f"N{self.n}-c"
        return f"N{self.n}"
    def comp(self, depth, explicit=0.8, kinds=None):
        rng = self.rng
        kind = rng.choice(kinds or ["AtLeast", "AtLeast", "AtLeastS", "AtMost", "All", "Any", "All", "Any", "Xor", "Imply", "XNor", "Not"])
        nch = rng.choice([0, 1, 1, 2, 2, 3]) if kind in ("AtLeast", "AtLeastS") else rng.randint(1, 3)
        if kind == "Imply": nch = 2
        if kind == "Not": nch = 1
        ch = []
        for _ in range(nch):
            if depth > 0 and rng.random() < 0.5:
                ch.append(self.comp(depth - 1, explicit, kinds))
            else:
                ch.append(self.fresh_leaf())
        if kind == "AtLeast":
            return {"k": "AtLeast", "v": rng.randint(-3, 3), "s": None, "ch": ch, "id": self.fresh_id(explicit)}
        if kind == "AtLeastS":
            return {"k": "AtLeast", "v": rng.randint(-3, 3), "s": rng.choice([-1, 1]), "ch": ch, "id": self.fresh_id(explicit)}
        if kind == "AtMost":
            return {"k": "AtMost", "v": rng.randint(-2, 3), "ch": ch, "id": self.fresh_id(explicit)}
        if kind == "Not":
            return {"k": "Not", "ch": ch, "id": None}
        r = {"k": kind, "ch": ch, "id": self.fresh_id(explicit)}
        return r

def comps_of(ast, acc=None, seen=None):
    acc = [] if acc is None else acc
    seen = set() if seen is None else seen
    if ast["k"] in ("str", "var") or id(ast) in seen:
        return acc
    seen.add(id(ast))
    acc.append(ast)
    for c in ast.get("ch", []):
        comps_of(c, acc, seen)
    return acc

def leaves_of_ast(ast):
    out = []
    for c in comps_of(ast):
        out.extend(x for x in c["ch"] if x["k"] in ("str", "var"))
    return out

def descendants(ast):
    return comps_of(ast)

def free_arity(c):
    """compounds whose child list may be extended without changing the constructor's shape"""
    return c["k"] in ("AtLeast", "AtMost", "All", "Any", "Xor")

def leaf_b(l):
    return list(l["b"]) if l["k"] == "var" else [0, 1]

def own_b(c):
    return list(c.get("vb") or [0, 1])

def ensure_id(c, adv):
    if c.get("id") is None and c["k"] != "Not":
        adv.n += 1
        c["id"] = f"E{adv.n}"
    return c.get("id")

def attach(top, new_child, adv, rng, avoid=None):
    """hang new_child under some compound of top (not inside `avoid`'s subtree) or under a new top"""
    cands = [c for c in comps_of(top) if free_arity(c) and (avoid is None or c not in comps_of(avoid))]
    if cands and rng.random() < 0.7:
        rng.choice(cands)["ch"].append(new_child)
        return top
    adv.n += 1
    wrap = {"k": rng.choice(["Any", "All", "AtLeast"]), "ch": [new_child, adv.fresh_leaf()], "id": f"W{adv.n}"}
    if wrap["k"] == "AtLeast":
        wrap["v"] = 1; wrap["s"] = None
    adv.n += 1
    return {"k": rng.choice(["All", "Any"]), "ch": [top, wrap], "id": f"T{adv.n}"}

def variant(c, adv, rng, how):
    """a different definition for the id of compound c"""
    v = copy.deepcopy(c)
    if how == "bounds":
        v["vb"] = rng.choice([b for b in OWN_BOUNDS if b != own_b(c)])
    elif how == "sign":
        if v["k"] == "AtLeast":
            cur = v.get("s") if v.get("s") is not None else (1 if v["v"] > 0 else -1)
            v["s"] = -cur
        else:
            nch = len(v["ch"])
            v = {"k": "AtLeast", "v": {"All": nch, "Any": 1, "AtMost": -v.get("v", 0)}.get(v["k"], 1), "s": {"AtMost": 1}.get(v["k"], -1),
                 "ch": v["ch"], "id": v["id"], **({"vb": v["vb"]} if v.get("vb") else {})}
    elif how == "value":
        if v["k"] in ("AtLeast", "AtMost"):
            if v["k"] == "AtLeast" and v.get("s") is None:
                v["s"] = 1 if v["v"] > 0 else -1
            v["v"] = v["v"] + rng.choice([-1, 1, 2])
        else:
            nch = len(v["ch"])
            v = {"k": "AtLeast", "v": {"All": nch, "Any": 1}.get(v["k"], 1) + 1, "s": 1, "ch": v["ch"], "id": v["id"], **({"vb": v["vb"]} if v.get("vb") else {})}
    elif how == "children":
        r = rng.random()
        if v["k"] in ("Imply", "Not", "XNor") or not v["ch"]:
            v = {"k": "Any", "ch": v["ch"] + [adv.fresh_leaf()], "id": v["id"]}
        elif r < 0.35 and len(v["ch"]) > 1:
            v["ch"].pop(rng.randrange(len(v["ch"])))
            if v["k"] == "All":   # keep the value: All recomputes it from the arity
                v = {"k": "AtLeast", "v": len(v["ch"]) + 1, "s": 1, "ch": v["ch"], "id": v["id"]}
        elif r < 0.7:
            i = rng.randrange(len(v["ch"]))
            v["ch"][i] = adv.fresh_leaf()
        else:
            v["ch"].append(adv.fresh_leaf())
            if v["k"] == "All":
                v = {"k": "AtLeast", "v": len(v["ch"]) - 1, "s": 1, "ch": v["ch"], "id": v["id"]}
    elif how == "class":
        nch = len(v["ch"])
        if v["k"] == "All":
            v = {"k": "AtLeast", "v": nch, "s": None, "ch": v["ch"], "id": v["id"]}
        elif v["k"] == "Any":
            v = {"k": "AtLeast", "v": 1, "s": None, "ch": v["ch"], "id": v["id"]}
        elif v["k"] == "AtLeast" and v["v"] == 1 and v.get("s") in (None, 1):
            v = {"k": "Any", "ch": v["ch"], "id": v["id"]}
        elif v["k"] == "AtLeast" and v["v"] == nch and nch > 0 and v.get("s") in (None, 1):
            v = {"k": "All", "ch": v["ch"], "id": v["id"]}
        elif v["k"] == "AtMost":
            v = {"k": "AtLeast", "v": -v["v"], "s": -1, "ch": v["ch"], "id": v["id"]}
        else:
            v["k"] = v["k"]   # no class twin: identical copy
        if c.get("vb"): v["vb"] = c["vb"]
    elif how == "copy":
        pass
    return v

MUTATIONS = ["redef-bounds", "redef-sign", "redef-value", "redef-children", "redef-class", "redef-copy",
             "leaf-bounds", "byid-same", "byid-other", "dup-same", "dup-copy", "dup-leaf", "dup-leaf-bounds",
             "cycle-self", "cycle-deep", "cycle-cross", "gen-coincide-other", "gen-coincide-same", "gen-coincide-leaf", "gen-coincide-concat", "repr-coincide",
             "childless-redef", "share-object", "share-leaf"]

def mutate(top, adv, rng, mut, collide=False):
    """returns the new top (the AST is modified in place where possible)"""
    cs = comps_of(top)
    named = [c for c in cs if c["k"] != "Not"]
    if mut.startswith("redef-"):
        c = rng.choice(named or cs)
        if c["k"] == "Not":
            return top
        ensure_id(c, adv)
        v = variant(c, adv, rng, mut[6:])
        return attach(top, v, adv, rng, avoid=c if rng.random() < 0.8 else None)
    if mut == "childless-redef":
        adv.n += 1
        i = f"C{adv.n}"
        v1 = rng.choice([-3, 0, 1, 2, 3] if not collide else [-1])
        a = {"k": "AtLeast", "v": v1, "s": rng.choice([1, -1]), "ch": [], "id": i}
        b = dict(a, ch=[])
        r = rng.random()
        if collide:
            b["v"] = -2
        elif r < 0.5:
            b["v"] = a["v"] + rng.choice([1, -1, 2])
        elif r < 0.8:
            b["s"] = -a["s"]
        else:
            b["ch"] = [adv.fresh_leaf()]
        top = attach(top, a, adv, rng)
        return attach(top, b, adv, rng)
    if mut == "leaf-bounds":
        ls = leaves_of_ast(top)
        if not ls:
            return top
        l = rng.choice(ls)
        nb = collide_with(leaf_b(l), rng) if collide else other_bounds(leaf_b(l), rng)
        if nb is None:
            l["k"] = "var"; l["b"] = [0, 3]; nb = [1, 2]
        new = {"k": "var", "id": l["id"], "b": nb}
        parents = [c for c in cs if l in c["ch"]]
        cands = [c for c in cs if free_arity(c) and c not in parents]
        if cands and rng.random() < 0.7:
            rng.choice(cands)["ch"].append(new)
            return top
        adv.n += 1
        return {"k": rng.choice(["All", "Any"]), "ch": [top, {"k": "Any", "ch": [new, adv.fresh_leaf()], "id": f"W{adv.n}"}], "id": f"T{adv.n}"}
    if mut in ("byid-same", "byid-other"):
        c = rng.choice(named or cs)
        if c["k"] == "Not":
            return top
        ensure_id(c, adv)
        ob = own_b(c)
        if mut == "byid-same":
            nb = ob
        else:
            nb = collide_with(ob, rng) if collide else other_bounds(ob, rng)
            if nb is None:
                nb = other_bounds(ob, rng)
        new = {"k": "var", "id": c["id"], "b": nb} if (nb != [0, 1] or rng.random() < 0.5) else {"k": "str", "id": c["id"]}
        return attach(top, new, adv, rng, avoid=c)
    if mut.startswith("dup-"):
        cands = [c for c in cs if free_arity(c) and c["ch"]]
        if not cands:
            return top
        c = rng.choice(cands)
        if mut == "dup-same":
            c["ch"].append(rng.choice(c["ch"]))
        elif mut == "dup-copy":
            c["ch"].append(copy.deepcopy(rng.choice(c["ch"])))
        else:
            ls = [x for x in c["ch"] if x["k"] in ("str", "var")]
            if not ls:
                c["ch"].append(copy.deepcopy(rng.choice(c["ch"])))
            else:
                l = rng.choice(ls)
                if mut == "dup-leaf":
                    c["ch"].append({"k": "var", "id": l["id"], "b": leaf_b(l)} if rng.random() < 0.5 else dict(l))
                else:
                    nb = (collide_with(leaf_b(l), rng) if collide else None) or other_bounds(leaf_b(l), rng)
                    c["ch"].append({"k": "var", "id": l["id"], "b": nb})
        return top
    if mut in ("cycle-self", "cycle-deep"):
        c = rng.choice(named or cs)
        if c["k"] == "Not":
            return top
        ensure_id(c, adv)
        below = [d for d in comps_of(c) if free_arity(d)]
        if mut == "cycle-self" or not below:
            below = [c] if free_arity(c) else below
        if not below:
            return top
        d = rng.choice(below)
        ob = own_b(c)
        nb = collide_with(ob, rng) if rng.random() < 0.35 else None     # a back reference declared with OTHER bounds that hash like the compound's
        d["ch"].append({"k": "str", "id": c["id"]} if nb is None and ob == [0, 1] and rng.random() < 0.5 else {"k": "var", "id": c["id"], "b": nb or ob})
        return top
    if mut == "cycle-cross":
        adv.n += 1
        i, j = f"P{adv.n}", f"Q{adv.n}"
        a = {"k": rng.choice(["All", "Any"]), "ch": [{"k": "str", "id": j}, adv.fresh_leaf()], "id": i}
        b = {"k": rng.choice(["All", "Any"]), "ch": [{"k": "str", "id": i}, adv.fresh_leaf()], "id": j}
        top = attach(top, a, adv, rng)
        return attach(top, b, adv, rng)
    if mut == "repr-coincide":
        # two compounds with the same explicit id, sign and value whose child lists PRINT alike: ["u,v"] and ["u", "v"]
        adv.n += 1
        u, v, i = f"u{adv.n}", f"v{adv.n}", f"C{adv.n}"
        k = rng.choice(["All", "Any", "AtLeast"])
        def mk(ids):
            r = {"k": k, "ch": [{"k": "str", "id": x} for x in ids], "id": i}
            if k == "AtLeast": r["v"] = 1; r["s"] = None
            if k == "All": r = {"k": "AtLeast", "v": 1, "s": None, "ch": r["ch"], "id": i}
            return r
        g1, g2 = mk([u + "," + v]), mk([u, v])
        top = attach(top, g1, adv, rng)
        return attach(top, g2, adv, rng, avoid=g1)
    if mut == "gen-coincide-concat":
        # two unnamed sub-propositions over DIFFERENT leaves whose generated ids coincide: the id generator hashes the
        # unseparated concatenation of the child ids (+ value + sign), and "uv"+"w" == "u"+"vw"
        adv.n += 1
        u, v, w = f"u{adv.n}", f"v{adv.n}", f"w{adv.n}"
        k = rng.choice(["All", "Any"]) if rng.random() < 0.7 else "AtLeast"
        def mk(ids):
            r = {"k": k, "ch": [{"k": "str", "id": i} for i in ids], "id": None}
            if k == "AtLeast": r["v"] = 1; r["s"] = None
            return r
        g1, g2 = mk([u + v, w]), mk([u, v + w])
        if k == "All" and rng.random() < 0.5:
            g2 = mk([u, v, w]) if False else g2
        top = attach(top, g1, adv, rng)
        return attach(top, g2, adv, rng, avoid=g1)
    if mut.startswith("gen-coincide-"):
        gens = [c for c in cs if c.get("id") is None and c["k"] in ("AtLeast", "AtMost", "All", "Any")]
        if not gens:
            adv.n += 1
            g0 = {"k": rng.choice(["All", "Any"]), "ch": [adv.fresh_leaf(), adv.fresh_leaf()], "id": None}
            top = attach(top, g0, adv, rng)
            gens = [g0]
        g = rng.choice(gens)
        try:
            gid = build(copy.deepcopy(g)).id
        except Exception:
            return top
        if mut == "gen-coincide-leaf":
            nb = [0, 1] if rng.random() < 0.6 else other_bounds([0, 1], rng)
            return attach(top, {"k": "var", "id": gid, "b": nb}, adv, rng, avoid=g)
        tw = copy.deepcopy(g)
        tw["id"] = gid
        if mut == "gen-coincide-other":
            tw = variant(tw, adv, rng, rng.choice(["sign", "value", "children", "bounds"]))
            tw["id"] = gid
        return attach(top, tw, adv, rng, avoid=g)
    if mut == "share-object":
        c = rng.choice(cs)
        return attach(top, c if rng.random() < 0.5 else copy.deepcopy(c), adv, rng, avoid=c)
    if mut == "share-leaf":
        ls = leaves_of_ast(top)
        if not ls:
            return top
        l = rng.choice(ls)
        parents = [c for c in cs if any(x is l or (x["k"] in ("str", "var") and x["id"] == l["id"]) for x in c["ch"])]
        cands = [c for c in cs if free_arity(c) and c not in parents]
        if not cands:
            return top
        rng.choice(cands)["ch"].append({"k": "var", "id": l["id"], "b": leaf_b(l)} if rng.random() < 0.5 else l)
        return top
    raise ValueError(mut)

def d8_pattern(adv, rng):
    """two edges whose "parent-child" strings coincide: (p-q, r) and (p, q-r)"""
    p, q_, r = rng.sample(["A", "b", "c", "N1", "x", "k"], 3)
    mk = lambda i, leaf: {"k": rng.choice(["All", "Any"]), "ch": [{"k": "str", "id": leaf}] + ([adv.fresh_leaf()] if rng.random() < 0.4 else []), "id": i}
    a, b = mk(f"{p}-{q_}", r), mk(p, f"{q_}-{r}")
    adv.leafnames = [n for n in adv.leafnames if n not in (r, f"{q_}-{r}", p, f"{p}-{q_}")]
    ch = [a, b] + ([adv.comp(1, 1.0, ["All", "Any", "AtLeast"])] if rng.random() < 0.4 else [])
    rng.shuffle(ch)
    return {"k": rng.choice(["All", "Any"]), "ch": ch, "id": rng.choice(["T", "top", None])}

def gen_case(rng, stream):
    """returns (label, ast)"""
    adv = Adv(random.Random(rng.getrandbits(64)), dash=rng.random() < 0.35)
    r = adv.rng
    if stream == "tree":
        if r.random() < 0.3:
            return "tree-d8", d8_pattern(adv, r)
        return "tree", adv.comp(r.randint(0, 3))
    if stream == "share":
        top = adv.comp(r.randint(1, 3))
        for _ in range(r.randint(1, 2)):
            top = mutate(top, adv, r, r.choice(["share-object", "share-leaf", "redef-copy", "byid-same", "gen-coincide-same"]))
        return "share", top
    if stream == "mutate":
        top = adv.comp(r.randint(0, 2), kinds=["AtLeast", "AtLeastS", "AtMost", "All", "Any", "All", "Any", "Xor", "Imply"])
        muts = [r.choice(MUTATIONS)]
        if r.random() < 0.2:
            muts.append(r.choice(MUTATIONS))
        for mu in muts:
            top = mutate(top, adv, r, mu)
        return "+".join(muts), top
    if stream == "d4":
        top = adv.comp(r.randint(0, 2), kinds=["AtLeast", "AtMost", "All", "Any"])
        mu = r.choice(["leaf-bounds", "leaf-bounds", "byid-other"])
        if r.random() < 0.15:
            x = "x"
            top = {"k": "All", "id": None, "ch": [{"k": "AtLeast", "v": 1, "s": None, "id": "B", "ch": [{"k": "var", "id": x, "b": [0, 3]}]},
                                                   {"k": "AtLeast", "v": 1, "s": None, "id": "C", "ch": [{"k": "var", "id": x, "b": [1, 2]}]}]}
            return "d4:witness", top
        if mu == "byid-other":
            c = r.choice([c for c in comps_of(top) if c["k"] != "Not"])
            ensure_id(c, adv)
            if r.random() < 0.5 and c["k"] != "Not":
                c["vb"] = [0, 0]
        if mu == "leaf-bounds" and r.random() < 0.5:
            ls = leaves_of_ast(top)
            if ls:
                l0 = r.choice(ls)
                nb = list(r.choice(M1_BOUNDS))
                for l in ls:
                    if l["id"] == l0["id"]:
                        l["k"] = "var"; l["b"] = list(nb)
                # the mutation below picks a random leaf; make it pick this one
                new = {"k": "var", "id": l0["id"], "b": collide_with(nb, r)}
                parents = [c for c in comps_of(top) if any(x is l0 for x in c["ch"])]
                cands = [c for c in comps_of(top) if free_arity(c) and c not in parents]
                if cands:
                    r.choice(cands)["ch"].append(new)
                else:
                    adv.n += 1
                    top = {"k": "All", "ch": [top, {"k": "Any", "ch": [new, adv.fresh_leaf()], "id": f"W{adv.n}"}], "id": f"T{adv.n}"}
                return "d4:leaf-bounds-m1", top
        top = mutate(top, adv, r, mu, collide=True)
        return "d4:" + mu, top
    if stream == "config":
        # configurator models: defaulted cc.Any / cc.Xor rules (their non-default branch carries a `prio` tag) next to
        # untagged twins of those branches - they merely share identical sub-propositions
        from props.c14 import CfgGen
        return "config", CfgGen(random.Random(rng.getrandbits(64))).config()
    if stream == "d12":
        top = adv.comp(r.randint(0, 2), kinds=["AtLeast", "AtMost", "All", "Any"])
        return "d12:childless-redef", mutate(top, adv, r, "childless-redef", collide=True)
    raise ValueError(stream)

# ----------------------------------------------------------------------------- oracle
def errs_of(m):
    return [ERR[e.name] for e in m.errors()]

def oracle_one(res, label, ast, m=None, errs=None, count=True):
    """the property on one model; returns True when it holds (or is a known finding)"""
    if m is None:
        m = build(json.loads(json.dumps(ast_json(ast))))
        if is_var(m):
            return True
        errs = errs_of(m)
    a = analyse(m)
    res.evaluations += 1
    payload = {"model": ast_json(ast), "stream": label}
    if count:
        res.count("errors:" + ("+".join(errs) if errs else "none"))
        if not a["ill"] and a["class_coherent"] and not a["share_only"]:
            res.count("is:well_defined_beyond_sharing")
        if not a["class_coherent"]:
            res.count("is:class_mixed")
        for k in ("cyclic", "dup_child", "tree_distinct", "share_only"):
            if a[k]: res.count("is:" + k)
        for k in a["diffs"]: res.count("is:diff-" + k)
        if not a["ill"]: res.count("is:well_defined")
    if not errs and a["ill"]:
        kf = classify_accepted_ill(a)
        if kf in ("D4", "D12"):
            res.count("known:" + kf)
            why = ("same id, different bounds with equal hash(Bounds) = hash(hash(lower)+hash(upper)): merged by flatten()'s set() / equal in the hash comparison"
                   if kf == "D4" else "childless compounds with the same id whose values -1 / -2 hash alike")
            cand = (len(canon(m)), f"errors()==[] for {canon(m)} although {describe(a)} ({why})")
            kfs = res.__dict__.setdefault("_kf", {})
            if kf not in kfs or cand < kfs[kf]:
                kfs[kf] = cand
            return True
        return report(res, ast, "accepted-ill-defined", label)
    if errs and a["tree_distinct"]:
        return report(res, ast, "rejected-tree", label)
    if errs and a["share_only"]:
        return report(res, ast, "rejected-share", label)
    if errs and not a["ill"] and a["class_coherent"]:
        return report(res, ast, "rejected-well-defined", label)
    return True

def history_step(res, label, ast, rng, d=None):
    """validation asked twice on ONE object with a call in between that changes it in place (assume() naming sub-propositions
    re-binds those nodes, finding D2 of property C09): the second answer is about the object as it is then.
    Returns a description of the failure (or None)."""
    m = build(json.loads(json.dumps(ast_json(ast))))
    if is_var(m):
        return None
    errs_of(m)
    cids = sorted({x.id for x in occurrences(m) if not is_var(x)})
    if d is None:
        d = {c: rng.choice([0, 1]) for c in rng.sample(cids, min(len(cids), rng.randint(1, 2)))}
    try:
        m.assume(dict(d))
        errs2 = errs_of(m)
    except Exception:
        return None
    a2 = analyse(m)
    res.evaluations += 1
    if hasattr(res, "count"):
        res.count("history:errors_assume_errors")
        if a2["ill"]: res.count("history:object_ill_defined_after_assume")
    if not errs2 and a2["ill"] and classify_accepted_ill(a2) not in ("D4", "D12"):
        what = f"errors()==[] on an object that became ill-defined in place (errors(); assume({d}); errors() on the same object): {describe(a2)} - {canon(m)}"
        if hasattr(res, "violation"):
            res.violation("oracle", what, {"model": ast_json(ast), "stream": label, "kind": "history", "assume": d})
        return what
    return None

def report(res, ast, kind, label):
    nfound = sum(1 for v in res.violations if v[0] == "oracle")
    small = shrink(ast, kind) if nfound < 5 else json.loads(json.dumps(ast_json(ast)))
    if failure_kind(small) != kind:
        small = json.loads(json.dumps(ast_json(ast)))
    m = build(copy.deepcopy(small))
    errs, a = errs_of(m), analyse(m)
    what = {"accepted-ill-defined": f"errors()==[] for the ill-defined model {canon(m)}: {describe(a)}",
            "rejected-tree": f"errors()=={errs} for the tree-shaped model with pairwise distinct ids {canon(m)}",
            "rejected-share": f"errors()=={errs} for {canon(m)}, which only shares identical sub-propositions",
            "rejected-well-defined": f"errors()=={errs} for the well-defined model {canon(m)} (acyclic, no repeated child, one definition and one class per id)"}[kind]
    res.violation("oracle", what, {"model": small, "stream": label, "kind": kind, "errors": errs})
    return False

def sub_asts(ast):
    return comps_of(ast)

def failure_kind(ast):
    """None when the property holds on the model built from (a JSON copy of) ast"""
    try:
        m = build(json.loads(json.dumps(ast_json(ast))))
        if is_var(m):
            return None
        errs = errs_of(m)
    except Exception:
        return None
    a = analyse(m)
    if not errs and a["ill"]:
        return None if classify_accepted_ill(a) else "accepted-ill-defined"
    if errs and a["tree_distinct"]:
        return "rejected-tree"
    if errs and a["share_only"]:
        return "rejected-share"
    if errs and not a["ill"] and a["class_coherent"]:
        return "rejected-well-defined"
    return None

def shrink(ast, kind, budget=300):
    """greedy: replace the model by a sub-proposition, drop a child, or replace a compound child by a
    fresh leaf, as long as the same kind of failure remains"""
    cur = json.loads(json.dumps(ast_json(ast)))
    progress = True
    while progress and budget > 0:
        progress = False
        cands = [c for c in comps_of(cur) if c is not cur]
        for c in comps_of(cur):
            for i in range(len(c.get("ch", []))):
                if c["k"] in ("Imply", "Not"):
                    continue
                d = copy.deepcopy(cur)
                # locate the same node in the copy by position
                path = find_path(cur, c)
                node = d
                for j in path:
                    node = node["ch"][j]
                node["ch"].pop(i)
                cands.append(d)
        cands.sort(key=ast_size)
        for d in cands:
            budget -= 1
            if budget <= 0:
                break
            if ast_size(d) < ast_size(cur) and failure_kind(d) == kind:
                cur = json.loads(json.dumps(ast_json(d)))
                progress = True
                break
    return cur

def find_path(root, target, path=()):
    if root is target:
        return list(path)
    for j, c in enumerate(root.get("ch", [])):
        r = find_path(c, target, path + (j,))
        if r is not None:
            return r
    return None

# ----------------------------------------------------------------------------- exhaustive small domain
def small_catalog():
    """children c for the shape T = AtLeast(1,[P,Q]), P = AtLeast(1,[c1,'p']), Q = AtLeast(1,[c2,'q'])"""
    cat = []
    for b in ([0, 1], [0, 3], [1, 2], [-1, 1], [-2, 1]):
        cat.append({"k": "var", "id": "x", "b": b})
    for b in ([0, 1], [-1, 2], [0, 2]):
        cat.append({"k": "var", "id": "A", "b": b})
    cat.append({"k": "str", "id": "P"})
    cat.append({"k": "str", "id": "T"})
    kids = [[], [{"k": "str", "id": "x"}], [{"k": "var", "id": "x", "b": [0, 3]}], [{"k": "str", "id": "x"}, {"k": "str", "id": "x"}],
            [{"k": "str", "id": "A"}], [{"k": "str", "id": "Q"}]]
    for v in (-2, -1, 1):
        for s in (1, -1):
            for ch in kids:
                for vb in (None, [0, 0]):
                    d = {"k": "AtLeast", "v": v, "s": s, "ch": copy.deepcopy(ch), "id": "A"}
                    if vb: d["vb"] = vb
                    cat.append(d)
    for ch in kids[1:3]:
        cat.append({"k": "All", "ch": copy.deepcopy(ch), "id": "A"})
        cat.append({"k": "Any", "ch": copy.deepcopy(ch), "id": "A"})
    return cat

def small_models():
    cat = small_catalog()
    for c1 in cat:
        for c2 in cat:
            yield "small", {"k": "AtLeast", "v": 1, "s": None, "id": "T", "ch": [
                {"k": "AtLeast", "v": 1, "s": None, "id": "P", "ch": [copy.deepcopy(c1), {"k": "str", "id": "p"}]},
                {"k": "AtLeast", "v": 1, "s": None, "id": "Q", "ch": [copy.deepcopy(c2), {"k": "str", "id": "q"}]}]}

# ----------------------------------------------------------------------------- corpus (always run first)
def _v(i, lo=0, hi=1): return {"k": "var", "id": i, "b": [lo, hi]}
def _s(i): return {"k": "str", "id": i}
def _n(kind, i, ch, **kw): return dict({"k": kind, "id": i, "ch": ch}, **kw)
def _al(v, i, ch, s=None, **kw): return dict({"k": "AtLeast", "v": v, "s": s, "id": i, "ch": ch}, **kw)

def corpus():
    return [
        ("corpus:D4", _n("All", None, [_al(1, "B", [_v("x", 0, 3)]), _al(1, "C", [_v("x", 1, 2)])])),
        ("corpus:D4-minus-one", _n("All", "N", [_n("Any", "M", [_v("u", 2, 2), _v("z", -3, 2)]), _v("z", -4, 2)])),
        ("corpus:D4-leaf-vs-compound", _n("Any", "T", [_n("All", "A", [_s("x")], vb=[0, 0]), _n("Any", "Q", [_v("A", -1, 2), _s("q")])])),
        ("corpus:D8", _n("All", None, [_n("All", "A-b", [_s("c")]), _n("All", "A", [_s("b-c")])])),
        ("corpus:D12", _n("Any", "T", [_n("Any", "P", [_al(-1, "A", [], 1), _s("p")]), _n("Any", "Q", [_al(-2, "A", [], 1), _s("q")])])),
        ("corpus:value-collide-with-child", _n("Any", "T", [_n("Any", "P", [_al(-1, "A", [_s("x")], 1), _s("p")]), _n("Any", "Q", [_al(-2, "A", [_s("x")], 1), _s("q")])])),
        ("corpus:class-differs", _n("Any", "T", [_n("Any", "P", [_n("All", "A", [_s("x"), _s("y")]), _s("p")]), _n("Any", "Q", [_al(2, "A", [_s("x"), _s("y")]), _s("q")])])),
        ("corpus:class-differs-childless", _n("Any", "T", [_n("Any", "P", [_n("All", "A", []), _s("p")]), _n("Any", "Q", [_al(0, "A", [], -1), _s("q")])])),
        ("corpus:self-reference", _n("All", "A", [_s("A")])),
        ("corpus:self-reference-2", _n("All", "A", [_s("A"), _s("B")])),
        ("corpus:deep-self-reference", _n("All", "A", [_n("All", None, [_n("All", None, [_n("All", None, [_s("A")])])])])),
        ("corpus:cycle-hidden-by-last-definition", _al(-1, "N", [_al(-1, "C", [_al(-2, "C", [], 1)], 1)], -1)),
        ("corpus:byid-other-bounds", _n("All", "A", [_n("All", "B", [_s("b"), _s("c")]), _n("All", "C", [_v("B", -1, 1), _s("d")])])),
        ("corpus:byid-same-bounds", _n("All", "A", [_n("All", "B", [_s("b"), _s("c")]), _n("All", "C", [_s("B"), _s("d")])])),
        ("corpus:empty-id-twice", _n("All", None, [_n("AtMost", "", [_v("a")], v=0), _n("AtMost", "", [_v("b")], v=0)])),
        ("corpus:leaf-siblings", _n("All", None, [_v("a", -1, 0), _v("a", -1, 0), _v("a", -1, 0)])),
        ("corpus:leaf-cousins", _n("All", None, [_n("Any", None, [_s("x"), _v("a", -1, 0)]), _n("Any", None, [_s("y"), _v("a", -1, 0)])])),
        ("corpus:same-compound-twice", _n("All", None, [_n("AtMost", "", [_v("a")], v=0), _n("AtMost", "", [_v("a")], v=0)])),
        ("corpus:generated-id-twin", _n("Any", "T", [_n("Any", "P", [_n("All", None, [_s("x"), _s("y")]), _s("p")]), _n("Any", "Q", [_n("All", None, [_s("x"), _s("y")]), _s("q")])])),
        ("corpus:ambivalent-compound-vs-int-leaf", _n("All", None, [_n("Any", "A", [_s("a"), _s("b")]), _n("Any", None, [_v("A", -10, 10)])])),
    ]

# ----------------------------------------------------------------------------- run
def run(res, tier, seed):
    rng = random.Random(seed * 1000003 + 10)
    res.rule = RULE
    k = 1 if tier == "quick" else 12
    plan = [("tree", 130 * k), ("share", 130 * k), ("mutate", 420 * k), ("d4", 80 * k), ("d12", 20 * k), ("config", 70 * k)]
    todo = list(corpus())
    # one item declared twice with DIFFERENT ranges that both reach the ends of the default integer range or lie beyond them
    wide = [[0, 32767], [0, 32768], [0, 40000], [0, 32769], [-32768, 32767], [-32768, 2 ** 31 - 1], [-40000, 5], [-32768, 5], [-32769, 5], [1, 32767]]
    wrng = random.Random(seed * 7993 + 10)
    for _ in range(24 * k):
        b1, b2 = wrng.sample(wide, 2)
        todo.append(("mutate:wide-ranges", {"k": wrng.choice(["Any", "All"]), "id": "T", "ch": [
            {"k": "All", "id": "P", "ch": [{"k": "var", "id": "x", "b": b1}, {"k": "str", "id": "p"}]},
            {"k": wrng.choice(["All", "Any"]), "id": "Q", "ch": [{"k": "var", "id": "x", "b": b2}, {"k": "str", "id": "q"}]}]}))
    for stream, n in plan:
        for _ in range(n):
            todo.append(gen_case(rng, stream))
    if tier != "quick":
        todo.extend(small_models())
    cases, seen = [], set()
    for label, ast in todo:
        try:
            m = build(ast)
            if is_var(m):
                res.count("skipped_leaf")
                continue
            errs = errs_of(m)
        except Exception as e:
            res.count("build_error:" + type(e).__name__)
            continue
        cm = canon(m)
        if cm in seen and label != "small":
            res.count("duplicate_model")
            continue
        seen.add(cm)
        for part in label.split("+"):
            res.count("stream:" + part)
        res.count("depth_%d" % depth_of(m))
        a = analyse(m)
        if a["repeated"]:
            res.nt(cm); res.count("nontrivial_repeated_id")
        if any("-" in x.id for x in occurrences(m)):
            res.count("has_dash_id")
        if any(x.generated_id for x in occurrences(m) if not is_var(x)):
            res.count("has_generated_id")
        ok = oracle_one(res, label, ast, m, errs)
        if label.startswith(("d4", "d12")) or label == "small":
            pass
        elif not errs and a["ill"] and ok:
            # a known finding witnessed outside its dedicated stream: still fine, but make it visible
            res.count("known_outside_stream")
        cases.append((lambda it, m=m, errs=errs: f"({dump(m, it)}, {lst(errs)})", (label, ast, m, errs)))
        res.sample({"stream": label, "model": repr(m), "errors": errs, "well_defined": not a["ill"]})
        if not errs and rng.random() < 0.5:
            history_step(res, label, ast, rng)
    if tier != "quick":
        res.exhaustive = True
        res.notes.append(f"exhaustive: all {len(small_catalog())}^2 models T=AtLeast(1,[P:AtLeast(1,[c1,'p']), Q:AtLeast(1,[c2,'q'])]) with c1,c2 from small_catalog() "
                         "(leaves x / A / P / T with 2-5 bounds each; compounds with id A: value in {-2,-1,1}, sign +-1, 6 child lists incl. none / repeated / self reference, own bounds (0,1)/(0,0), All/Any twins)")
    for kf, (_, desc) in sorted(res.__dict__.get("_kf", {}).items()):
        res.known_finding(kf, desc)      # the smallest witness of this run
    # smallest counterexamples first (the first three become replay files)
    res.violations.sort(key=lambda v: (v[0] != "oracle", len(json.dumps(v[2], default=str))))
    n, failing, errsh = run_case_shards("C10", "errors", "", "prop * list err", "check_errors", cases,
                                        imports="Puan.Plog Puan.Errors Puan.CorrErrors")
    res.corr_cases += n
    res.evaluations += n
    for e in errsh:
        res.violation("corr", "correspondence shard failed: " + e, {"check": "CorrErrors.check_errors", "error": e})
    for i in failing[:10]:
        label, ast, m, errs = cases[i][1]
        # escalate: the sub-propositions of the disagreeing model and mutations of it
        found = False
        for sub in sub_asts(ast):
            try:
                found |= not oracle_one(res, label + ":sub", sub, count=False)
            except Exception:
                pass
        r2 = random.Random(seed + i)
        for _ in range(400):
            try:
                adv = Adv(r2)
                t2 = mutate(copy.deepcopy(ast), adv, r2, r2.choice(MUTATIONS))
                found |= not oracle_one(res, label + ":escalated", t2, count=False)
            except Exception:
                pass
            if found:
                break
        res.violation("corr", f"model errors2 differs from the implementation on {m!r} ({canon(m)}): implementation returned {errs}",
                      {"check": "CorrErrors.check_errors", "model": ast_json(ast), "implementation_output": errs, "failing_input_found": found})

def replay(payload):
    r = payload.get("replay", payload)
    if r.get("kind") == "history":
        class R: evaluations = 0
        bad = history_step(R, r.get("stream", ""), r["model"], random.Random(0), d=r["assume"])
        print("model", build(r["model"]), "history errors(); assume(%s); errors() ->" % r["assume"], "FAILS: " + bad if bad else "holds")
        return 1 if bad else 0
    m = build(r["model"])
    errs = errs_of(m)
    a = analyse(m)
    print("model", m, canon(m))
    print("errors()", errs)
    print("independent checker:", "well-defined" if not a["ill"] else describe(a), "| tree_distinct", a["tree_distinct"], "| share_only", a["share_only"])
    if not errs and a["ill"]:
        kf = classify_accepted_ill(a)
        print("accepted although ill-defined" + (f" (known finding {kf})" if kf else ""))
        return 0 if kf else 1
    if errs and (a["tree_distinct"] or a["share_only"] or (not a["ill"] and a["class_coherent"])):
        print("rejected although well-defined (tree-shaped with distinct ids / sharing identical sub-propositions only / by-id references)")
        return 1
    return 0
