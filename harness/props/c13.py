"""C13 — priority compression (integer_ndarray.ndint_compress, reduce2d, ranking and the wheel's
py_optimized_bit_allocation_64): correspondence with the Coq model Compress.v and a direct oracle
that executes the property statement on the implementation's outputs."""
import random, json
import numpy as np
import puan, puan.ndarray as pnd
import puan_rspy as pr
from common import *
from compressio import *

RULE = ("integer arrays from the structured generator (1-D, 2-D, batched 3-D; palettes with ties, zeros, mixed signs, "
        "all-zero rows/columns, wide magnitudes, many-level matrices near the 64-bit limit) x 7 methods x every valid axis; "
        "non-trivial = a batched method (shadow/prio/rank/first/last) applied to >= 2 rows whose effective keys "
        "(row of last non-zero, |value|) contain a tie, lie in >= 2 different rows and carry both signs; "
        "distinct by (method, axis, array)")

def one_case(res, arr, method, axis, cases, rng=None):
    """run the implementation on one (array, method, axis); direct oracle; queue the correspondence case"""
    try:
        out = run_compress(arr, method, axis)
    except Exception as e:
        res.count("impl_raised:" + type(e).__name__)
        res.violation("oracle", f"ndint_compress(method={method!r}, axis={axis}) raised {type(e).__name__}: {e} on {arr}",
                      {"op": "compress", "method": method, "axis": axis, "array": arr})
        return
    res.evaluations += 1
    d = check_property(arr, method, axis, out)
    ndim = np.asarray(arr, dtype=object).ndim
    res.count(f"{method}/{ndim}d/axis={axis}")
    if d == "overflow":
        res.count("beyond_64_bits(skipped by the property's guard)")
    elif d:
        res.violation("oracle", f"ndint_compress(method={method!r}, axis={axis}) on {arr}: {d}",
                      {"op": "compress", "method": method, "axis": axis, "array": arr})
    if nontrivial(arr, method, axis):
        res.nt(json.dumps([method, axis, arr]))
        res.count("nontrivial")
    cases.append((compress_case_term(method, axis, arr, out), {"method": method, "axis": axis, "array": arr, "out": np.asarray(out).tolist()}))
    res.sample({"method": method, "axis": axis, "array": arr, "output": np.asarray(out).tolist()}, cap=8)

def all_uses(res, arr, cases):
    ndim = np.asarray(arr, dtype=object).ndim
    for m in METHODS:
        for ax in valid_axes(m, ndim):
            one_case(res, arr, m, ax, cases)

def oba_cases(res, rng, n):
    cases = []
    for _ in range(n):
        k = rng.random()
        ln = rng.randint(1, 14)
        if k < 0.6:
            vs = [rng.choice([-3, -2, -1, 1, 2, 3, 7, 0]) for _ in range(ln)]
        elif k < 0.8:   # sorted runs with alternating sign, the shape ndint_compress produces
            vs, s = [], 1
            for _ in range(rng.randint(1, 4)):
                vs += [s * v for v in sorted(rng.choice([1, 2, 3, 4]) for _ in range(rng.randint(1, 4)))]
                s = -s
        else:           # many groups: towards 2^63
            vs = [v for v in range(1, rng.randint(40, 63)) for _ in range(rng.randint(1, 2))]
        got = [int(x) for x in pr.py_optimized_bit_allocation_64(np.array(vs, dtype=np.int64))]
        res.evaluations += 1
        # independent statement: weight of an element = 1 + sum of the weights of everything before its run
        exp, total, i = [], 0, 0
        while i < len(vs):
            j = i
            while j < len(vs) and vs[j] == vs[i]:
                j += 1
            exp += [total + 1] * (j - i)
            total += (total + 1) * (j - i)
            i = j
        if max(exp) < I64 and got != exp:
            res.violation("oracle", f"py_optimized_bit_allocation_64({vs}) = {got}, expected {exp}", {"op": "oba", "values": vs})
        res.count("oba")
        cases.append((f"({lz(vs)}, {lz(got)})", {"values": vs, "got": got}))
    return cases

def reduce2d_expected(M, meth, ax):
    """exactly the first/last non-zero of every line along the axis survives"""
    A = np.array(M, dtype=np.int64)
    A = A if ax == 0 else A.T
    exp = np.zeros_like(A)
    for j in range(A.shape[1]):
        nzr = [i for i in range(A.shape[0]) if A[i, j] != 0]
        if nzr:
            i = nzr[0] if meth == "first" else nzr[-1]
            exp[i, j] = A[i, j]
    return (exp if ax == 0 else exp.T).tolist()

def ranking_problem(arr, out):
    """ranking(): dense, order preserving, per row of the last axis; starts at 1 iff the row is all positive"""
    w = np.array(arr, dtype=object).shape[-1]
    flat_in = np.array(arr, dtype=object).reshape(-1, w).tolist()
    flat_out = np.array(out, dtype=object).reshape(-1, w).tolist()
    for vi, vo in zip(flat_in, flat_out):
        d = dense_ranking_property(vi, vo, "ranking")
        if d is None and vo and (min(vo) == 1) != (min(vi) > 0):
            d = f"ranking starts at {min(vo)} for minimum value {min(vi)}"
        if d:
            return d
    return None

def reduce_rank_cases(res, rng, n):
    red, rnk = [], []
    for _ in range(n):
        M = gen_array(rng, 2)
        for meth in ("first", "last"):
            for ax in (0, 1):
                out = np.asarray(pnd.integer_ndarray(np.array(M, dtype=np.int64)).reduce2d(method=meth, axis=ax)).astype(np.int64).tolist()
                res.evaluations += 1
                res.count("reduce2d")
                exp = reduce2d_expected(M, meth, ax)
                if exp != out:
                    res.violation("oracle", f"reduce2d(method={meth!r}, axis={ax}) on {M} = {out}, expected {exp}",
                                  {"op": "reduce2d", "method": meth, "axis": ax, "array": M})
                red.append((f"({'RFirst' if meth == 'first' else 'RLast'}, {ax}%nat, {llz(M)}, {llz(out)})", {"M": M, "method": meth, "axis": ax}))
        arr = gen_array(rng, rng.choice([1, 1, 2, 3]))
        out = np.asarray(pnd.integer_ndarray(np.array(arr, dtype=np.int64)).ranking()).tolist()
        res.evaluations += 1
        res.count("ranking")
        d = ranking_problem(arr, out)
        if d:
            res.violation("oracle", f"ranking() on {arr}: {d}", {"op": "ranking", "array": arr})
        rnk.append((f"({nd_term(arr)}, {nd_term(out)})", {"array": arr}))
    return red, rnk

def escalate(res, payload, rng):
    """a correspondence disagreement localises a behaviour change: search around the case"""
    arr, method, axis = payload["array"], payload["method"], payload["axis"]
    found = False
    a = np.array(arr, dtype=object)
    tries = [arr]
    for _ in range(400):
        b = a.copy()
        flat = b.reshape(-1)
        for _ in range(rng.randint(1, 3)):
            flat[rng.randrange(len(flat))] = rng.choice([0, 1, -1, 2, -2, 3, 5, -5])
        tries.append(b.tolist())
    for t in tries:
        for m in METHODS:
            for ax in valid_axes(m, a.ndim):
                try:
                    out = run_compress(t, m, ax)
                except Exception as e:
                    res.violation("oracle", f"ndint_compress(method={m!r}, axis={ax}) raised {type(e).__name__}: {e} on {t}",
                                  {"op": "compress", "method": m, "axis": ax, "array": t})
                    return True
                res.evaluations += 1
                d = check_property(t, m, ax, out)
                if d and d != "overflow":
                    res.violation("oracle", f"ndint_compress(method={m!r}, axis={ax}) on {t}: {d}",
                                  {"op": "compress", "method": m, "axis": ax, "array": t})
                    return True
    return found

def run(res, tier, seed):
    rng = random.Random(seed * 1000003 + 13)
    res.rule = RULE
    quick = tier == "quick"
    cases = []
    # fixed corner cases first (documentation examples, degenerate shapes)
    corpus = [
        [1, 2, 1, 0, 4, 4, 6], [0, 0, 0], [5], [-5], [0],
        [[1, 2, 0, 0], [0, 3, 4, 0], [5, 0, 0, 6]], [[1, -2, 0, 0], [0, 3, 4, 0], [5, 0, 0, -6]],
        [[0, 0], [0, 0]], [[0], [0]], [[3, 0], [0, 0], [0, 3]], [[3, 0], [0, 0], [0, -3]], [[-1, -1, -1]], [[2], [2], [2]],
        [[1, 1, 2], [0, 0, 0], [0, 1, 0], [0, 0, 0], [0, 0, 1]],
        [[[1, 2, 0], [0, -3, 4]], [[0, 0, 1], [2, -2, 2]]], [[[0, 0], [0, 0]]], [[[7]]],
    ]
    for arr in corpus:
        all_uses(res, arr, cases)
    n_arr = {1: 14, 2: 26, 3: 12} if quick else {1: 200, 2: 420, 3: 160}
    for ndim, n in n_arr.items():
        for _ in range(n):
            all_uses(res, gen_array(rng, ndim), cases)
    # larger shapes (numpy switches sorting algorithm above 16 elements)
    for _ in range(4 if quick else 40):
        all_uses(res, gen_array(rng, 2, maxdim=rng.choice([9, 20])), cases)
        all_uses(res, gen_array(rng, 1, maxdim=40), cases)
    # many levels: weights approach / pass 2^63 (the property's guard)
    for _ in range(10 if quick else 120):
        M = gen_levels_matrix(rng, rng.randint(20, 60), 2)
        for ax, arr in ((0, M), (1, np.array(M, dtype=object).T.tolist())):
            for m in ("shadow", "prio", "rank"):
                one_case(res, arr, m, ax, cases)
        res.count("many_levels")
    # the 64-bit boundary itself: 61, 62, 63 and 64 priority levels of one column each (63 is the last count whose weights fit)
    for L in (61, 62, 63, 64):
        lv = list(range(1, L + 1)); rng.shuffle(lv)
        M = [[rng.choice([1, -1]) * v for v in lv], [0] * L]
        for ax, arr in ((0, M), (1, np.array(M, dtype=object).T.tolist())):
            for m in ("shadow", "prio", "rank"):
                one_case(res, arr, m, ax, cases)
        res.count("levels_at_the_64_bit_boundary")
    if not quick:
        # exhaustive: every 2x3 and 3x2 matrix over {-2,-1,0,1,2} with 'shadow' (and 'prio') along axis 0
        vals = [-2, -1, 0, 1, 2]
        import itertools
        for shape in ((2, 3), (3, 2)):
            for flat in itertools.product(vals, repeat=6):
                M = [list(flat[i * shape[1]:(i + 1) * shape[1]]) for i in range(shape[0])]
                for m in ("shadow", "prio"):
                    out = run_compress(M, m, 0)
                    res.evaluations += 1
                    d = check_property(M, m, 0, out)
                    if d:
                        res.violation("oracle", f"ndint_compress(method={m!r}, axis=0) on {M}: {d}", {"op": "compress", "method": m, "axis": 0, "array": M})
                    if m == "shadow":
                        cases.append((compress_case_term(m, 0, M, out), {"method": m, "axis": 0, "array": M, "out": np.asarray(out).tolist()}))
                res.count("exhaustive_small")
        res.exhaustive = True
        res.notes.append("exhaustive: all 2x3 and 3x2 matrices over {-2..2}, methods shadow and prio, axis 0 (oracle); shadow also in the correspondence")
    n, failing, errs = run_case_shards("C13", "compress", "", "method * option nat * nd * option nd", "check_compress", cases,
                                       imports="Puan.Compress Puan.CorrCompress")
    res.corr_cases += n
    oc = oba_cases(res, rng, 150 if quick else 3000)
    n2, failing2, errs2 = run_case_shards("C13", "oba", "", "list Z * list Z", "check_oba", oc, imports="Puan.Compress Puan.CorrCompress")
    res.corr_cases += n2
    red, rnk = reduce_rank_cases(res, rng, 30 if quick else 600)
    n3, failing3, errs3 = run_case_shards("C13", "reduce2d", "", "rmethod * nat * list (list Z) * list (list Z)", "check_reduce2d", red,
                                          imports="Puan.Compress Puan.CorrCompress")
    n4, failing4, errs4 = run_case_shards("C13", "ranking", "", "nd * nd", "check_ranking", rnk, imports="Puan.Compress Puan.CorrCompress")
    res.corr_cases += n3 + n4
    res.evaluations += n + n2 + n3 + n4
    for e in errs + errs2 + errs3 + errs4:
        res.violation("corr", "correspondence shard failed: " + e, {"error": e})
    for i in failing[:10]:
        p = cases[i][1]
        found = escalate(res, p, rng)
        res.violation("corr", f"model ndint_compress differs from the implementation: method={p['method']} axis={p['axis']} array={p['array']} implementation returned {p['out']}",
                      {"check": "CorrCompress.check_compress", **p, "failing_input_found": found})
    for i in failing2[:5]:
        p = oc[i][1]
        res.violation("corr", f"model oba differs from py_optimized_bit_allocation_64 on {p['values']}: wheel returned {p['got']}",
                      {"check": "CorrCompress.check_oba", **p})
    for i in failing3[:5]:
        res.violation("corr", f"model reduce2d differs from the implementation on {red[i][1]}", {"check": "CorrCompress.check_reduce2d", **red[i][1]})
    for i in failing4[:5]:
        res.violation("corr", f"model ranking differs from the implementation on {rnk[i][1]}", {"check": "CorrCompress.check_ranking", **rnk[i][1]})

def replay(payload):
    r = payload.get("replay", payload)
    op = r.get("op", "compress")
    if op == "oba":
        vs = r["values"]
        got = [int(x) for x in pr.py_optimized_bit_allocation_64(np.array(vs, dtype=np.int64))]
        exp, total, i = [], 0, 0
        while i < len(vs):
            j = i
            while j < len(vs) and vs[j] == vs[i]:
                j += 1
            exp += [total + 1] * (j - i)
            total += (total + 1) * (j - i)
            i = j
        print("values", vs, "wheel", got, "expected", exp)
        return 0 if got == exp else 1
    if op == "reduce2d":
        out = np.asarray(pnd.integer_ndarray(np.array(r["array"], dtype=np.int64)).reduce2d(method=r["method"], axis=r["axis"])).tolist()
        exp = reduce2d_expected(r["array"], r["method"], r["axis"])
        print("reduce2d", r["method"], r["axis"], r["array"], "->", out, "expected", exp)
        return 0 if out == exp else 1
    if op == "ranking":
        out = np.asarray(pnd.integer_ndarray(np.array(r["array"], dtype=np.int64)).ranking()).tolist()
        d = ranking_problem(r["array"], out)
        print("ranking", r["array"], "->", out, d or "property holds")
        return 0 if d is None else 1
    arr, method, axis = r["array"], r["method"], r["axis"]
    try:
        out = run_compress(arr, method, axis)
    except Exception as e:
        print("array", arr, "method", method, "axis", axis, "raised", type(e).__name__, e)
        return 1
    d = check_property(arr, method, axis, out)
    print("array", arr, "method", method, "axis", axis, "output", np.asarray(out).tolist(), "->", d or "property holds")
    return 0 if (d is None or d == "overflow") else 1
