"""C05 — negation is the exact complement, stays solver-safe, keeps explicit ids."""
import random, json
import puan, puan.logic.plog as pg
from common import *
from plogio import *

RULE = ("models from the structured generator (depth 0-3, all connectives, explicit signs, integer leaves, sharing), "
        "validated (errors()==[]); non-trivial = negate() takes the inward-push branch (positive node with a compound child); "
        "distinct by canonical text of the model")

def gen_models(rng, n, res, depth_max=3):
    out = []
    tries = 0
    while len(out) < n and tries < n * 5:
        tries += 1
        g = ModelGen(random.Random(rng.getrandbits(64)))
        ast = g.prop(rng.randint(0, depth_max))
        orc = IdOracle()
        try:
            with orc:
                m = build(ast)
                if is_var(m) or m.errors():
                    res.count("skipped_invalid")
                    continue
                neg = m.negate()
        except Exception as e:
            res.count("build_error:" + type(e).__name__)
            continue
        out.append((ast, m, neg, orc))
    return out

def oracle_one(res, ast, m, neg, rng, n_env, exhaustive_cap=0):
    lv = leaves_of(m)
    envs = all_envs(lv, exhaustive_cap) if exhaustive_cap else None
    if envs is None:
        envs = [random_env(lv, rng) for _ in range(n_env)]
    bad = None
    for env in envs:
        res.evaluations += 1
        want = 1 - ref_eval(m, env)
        got_ref = ref_eval(neg, env)
        got_impl = neg.evaluate(dict(env))
        orig_impl = m.evaluate(dict(env))
        if got_ref != want or got_impl.as_tuple() != (want, want) or orig_impl.as_tuple() != (1 - want, 1 - want):
            bad = (env, want, got_ref, got_impl.as_tuple(), orig_impl.as_tuple())
            break
    if bad:
        env, want, got_ref, got_impl, orig_impl = bad
        res.violation("oracle", f"negate() is not the complement: model {m!r} env {env}: original evaluates to {orig_impl}, negated to {got_impl} (structure says {got_ref}), required {want}",
                      {"op": "negate", "model": ast_json(ast), "env": env, "required": want, "observed": list(got_impl)})
        return False
    if not m.generated_id and neg.id != m.id:
        res.violation("oracle", f"negate() changed explicit id {m.id} -> {neg.id}", {"op": "negate-id", "model": ast_json(ast)})
        return False
    if solver_safe(m) and not solver_safe(neg):
        res.violation("oracle", f"negate() of solver-safe model {m!r} is not solver-safe: {canon(neg)}", {"op": "negate-safe", "model": ast_json(ast)})
        return False
    return True

def run(res, tier, seed):
    rng = random.Random(seed * 1000003 + 5)
    res.rule = RULE
    n_models = 500 if tier == "quick" else 6000
    models = gen_models(rng, n_models, res)
    cases = []
    for ast, m, neg, orc in models:
        cm = canon(m)
        res.count("depth_%d" % depth_of(m))
        pushed = any((not is_var(x)) and int(x.sign) == 1 and any(not is_var(c) for c in x.propositions) for x in [m])
        if pushed:
            res.nt(cm); res.count("inward_push")
        if has_mixed_positive(m):
            res.count("mixed_anywhere")
        if int(m.sign) == 1 and 0 < sum(1 for c in m.propositions if is_var(c)) < len(m.propositions):
            res.count("mixed_top")
        if any(l.bounds.as_tuple() != (0, 1) for l in leaves_of(m)):
            res.count("integer_leaves")
        cases.append((lambda it, m=m, neg=neg, orc=orc: f"({orc.term(it)}, {dump(m, it)}, {dump(neg, it)})", (ast, m, neg)))
        res.sample({"model": repr(m), "negated": repr(neg)})
    n, failing, errs = run_case_shards("C05", "negate", "", "idtable * prop * prop", "check_negate", cases)
    res.corr_cases += n
    res.evaluations += n
    for e in errs:
        res.violation("corr", "correspondence shard failed: " + e, {"check": "Corr.check_negate", "error": e})
    # direct oracle on every model; escalate around disagreements
    for ast, m, neg, orc in models:
        oracle_one(res, ast, m, neg, rng, 8 if tier == "quick" else 20, exhaustive_cap=0 if tier == "quick" else 600)
    for i in failing[:10]:
        ast, m, neg = cases[i][1]
        found = not oracle_one(res, ast, m, neg, rng, 2000, exhaustive_cap=20000)
        res.violation("corr", f"model negate differs from implementation on {m!r}: implementation returned {canon(neg)}",
                      {"check": "Corr.check_negate", "model": ast_json(ast), "implementation_output": canon(neg), "failing_input_found": found})

def replay(payload):
    r = payload.get("replay", payload)
    m = build(r["model"])
    neg = m.negate()
    if "env" in r:
        got = neg.evaluate(dict(r["env"])).as_tuple()
        print("model", m, "negated", neg, "env", r["env"], "negated evaluates to", got, "required", r["required"])
        return 0 if got == (r["required"], r["required"]) else 1
    print("model", m, "negated", canon(neg))
    return 1
