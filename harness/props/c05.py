"""C05 — negation is the exact complement, stays solver-safe, keeps explicit ids."""
import random, json
import puan, puan.logic.plog as pg
from common import *
from plogio import *

RULE = ("models from the structured generator (depth 0-3, all connectives, explicit signs, integer leaves, sharing), "
        "validated (errors()==[]); non-trivial = negate() takes the inward-push branch (positive node with a compound child); "
        "distinct by canonical text of the model. Not(...): the constructor route, on compound models and on str / puan.variable atoms with boolean, integer and constant bounds (Not(atom) against All(atom)), with the constructor model Cons.build as correspondence")

def lookalike_ast(rng):
    """a positive node over atoms S and a sub-proposition that looks like one of the threshold nodes negate() generates for S:
    an anonymous AtLeast(t, S) with the sign given explicitly (either sign), t in the range of the atom sum"""
    names = rng.sample(list("abcdef"), rng.randint(2, 4))
    S = [{"k": "str", "id": n_} if rng.random() < 0.7 else {"k": "var", "id": n_, "b": [0, rng.choice([1, 1, 2])]} for n_ in names]
    hi = sum(c.get("b", [0, 1])[1] for c in S)
    twin = {"k": "AtLeast", "v": rng.randint(0, hi + 1), "s": rng.choice([1, 1, -1]), "ch": [dict(c) for c in S], "id": None}
    ch = [dict(c) for c in S] + [twin]
    if rng.random() < 0.4:
        ch.append({"k": rng.choice(["All", "Any"]), "ch": [{"k": "str", "id": "g"}, {"k": "str", "id": "h"}], "id": None})
    top = {"k": "AtLeast", "v": rng.randint(1, len(ch)), "s": rng.choice([None, 1]), "ch": ch, "id": rng.choice(["A", None])}
    return top if rng.random() < 0.6 else {"k": "All", "ch": [top, {"k": "str", "id": "z"}], "id": None}

def gen_models(rng, n, res, depth_max=3):
    out = []
    tries = 0
    while len(out) < n and tries < n * 5:
        tries += 1
        g = ModelGen(random.Random(rng.getrandbits(64)))
        if tries % 8 == 0:
            ast = lookalike_ast(rng)
        elif tries % 8 == 4:
            # the configurator's Any / Xor (with every kind of default) are models too: alone, or under a plog connective
            cg = ConfigGen(random.Random(rng.getrandbits(64)))
            ast = cg.simple()
            if ast["k"] in ("CcAny", "CcXor") and len(ast["ch"]) < 3 and rng.random() < 0.7:
                extra = [n for n in cg.items if n not in {c.get("id") for c in ast["ch"]}]
                if extra and all(c["k"] in ("str", "var") for c in ast["ch"]):
                    ast["ch"].append(cg.leaf(extra[0]))
            if rng.random() < 0.4:
                ast = {"k": rng.choice(["All", "Any", "AtLeast"]), "ch": [ast, cg.leaf(rng.choice(cg.items))], "id": rng.choice([None, "W"]), "v": 1, "s": None}
        elif tries % 16 == 9:
            ast = wide_ast(rng); res.count("wide_node_models")
        else:
            ast = g.prop(rng.randint(0, depth_max))
        orc = IdOracle()
        try:
            with orc:
                m = build(ast)
                if is_var(m) or m.errors():
                    res.count("skipped_invalid")
                    continue
                neg = m.negate()
        except Exception as e:
            res.count("build_error:" + type(e).__name__)
            continue
        out.append((ast, m, neg, orc))
    return out

def _c05_raised(e, res, ast, m, neg, *a, **k):
    res.violation("oracle", f"evaluate on the model or its negation raised {type(e).__name__}: {str(e)[:160]} - model {m!r}",
                  {"op": "negate", "model": ast_json(ast), "env": {}, "required": None, "observed": None})
    return False

@guarded(_c05_raised)
def oracle_one(res, ast, m, neg, rng, n_env, exhaustive_cap=0):
    lv = leaves_of(m)
    envs = all_envs(lv, exhaustive_cap) if exhaustive_cap else None
    if envs is None:
        envs = [random_env(lv, rng) for _ in range(n_env)]
    bad = None
    for env in envs:
        res.evaluations += 1
        want = 1 - ref_eval(m, env)
        got_ref = ref_eval(neg, env)
        got_impl = neg.evaluate(dict(env))
        orig_impl = m.evaluate(dict(env))
        if got_ref != want or got_impl.as_tuple() != (want, want) or orig_impl.as_tuple() != (1 - want, 1 - want):
            bad = (env, want, got_ref, got_impl.as_tuple(), orig_impl.as_tuple())
            break
    if bad:
        env, want, got_ref, got_impl, orig_impl = bad
        res.violation("oracle", f"negate() is not the complement: model {m!r} env {env}: original evaluates to {orig_impl}, negated to {got_impl} (structure says {got_ref}), required {want}",
                      {"op": "negate", "model": ast_json(ast), "env": env, "required": want, "observed": list(got_impl)})
        return False
    if not m.generated_id and neg.id != m.id:
        res.violation("oracle", f"negate() changed explicit id {m.id} -> {neg.id}", {"op": "negate-id", "model": ast_json(ast)})
        return False
    if solver_safe(m) and not solver_safe(neg):
        res.violation("oracle", f"negate() of solver-safe model {m!r} is not solver-safe: {canon(neg)}", {"op": "negate-safe", "model": ast_json(ast)})
        return False
    return True

def apply_edit(m, spec):
    """negate once, then change a threshold in place (on the object, or on a shallow copy of it) - returns the object to negate again"""
    import copy
    m.negate()
    target = copy.copy(m) if spec["copy"] else m
    nodes = [x for x in all_nodes(target) if not is_var(x)]
    x = nodes[spec["node"] % len(nodes)]
    if x is not target and spec["copy"]:
        x = target                      # a shallow copy shares its sub-propositions with the original: edit the copy itself
    x.value = int(x.value) + spec["delta"]
    return target

def edit_stream(res, tier, rng, models):
    """a proposition is an object: its threshold is changed in place after it was negated once (directly, or below a parent whose
    negation is pushed inwards through it); the next negate() is the complement of the proposition as it is then"""
    for ast, m0, neg0, orc in models[: (120 if tier == "quick" else 1500)]:
        spec = {"node": rng.randrange(8), "delta": rng.choice([1, -1, 2]), "copy": rng.random() < 0.3}
        try:
            m = apply_edit(build(ast), spec)
            if m.errors():
                res.count("edit_skipped_invalid"); continue
            neg = m.negate()
        except Exception as e:
            res.count("edit_error:" + type(e).__name__); continue
        res.count("negate_after_in_place_edit" + ("_of_copy" if spec["copy"] else ""))
        lv = leaves_of(m)
        envs = all_envs(lv, 300) or [random_env(lv, rng) for _ in range(12)]
        for env in envs:
            res.evaluations += 1
            want = 1 - ref_eval(m, env)
            try:
                got = neg.evaluate(dict(env)).as_tuple()
            except Exception as e:
                got = ("raised", type(e).__name__)
            if got != (want, want) or ref_eval(neg, env) != want:
                res.violation("oracle", f"negate() is not the complement after an in-place change of a threshold ({spec}; one negate() before it): {m!r} negated to {neg!r} evaluates to {got} at {env}, required {want}",
                              {"op": "negate-after-edit", "model": ast_json(ast), "edit": spec, "env": env, "required": want, "observed": list(got)})
                break

def not_stream(res, tier, rng, models):
    """Not(...) — the constructor route to negation: Not(model) for compound models, Not(atom) for str / puan.variable atoms
    with boolean, integer (negative, positive lower bound) and constant bounds; Not(atom) is the complement of All(atom)"""
    cases = []
    def one(ast):
        nast = {"k": "Not", "ch": [ast], "id": None}
        orc = IdOracle()
        try:
            with orc:
                m = build(ast)
                orig = build({"k": "All", "ch": [ast], "id": None}) if is_var(m) or isinstance(m, str) else m
                neg = build(nast)
        except Exception as e:
            res.count("not_build_error:" + type(e).__name__); return
        if orig.errors() or neg.errors():
            res.count("not_skipped_invalid"); return
        res.count("Not_of_atom" if orig is not m else "Not_of_compound")
        lv = leaves_of(orig)
        envs = all_envs(lv, 300) or [random_env(lv, rng) for _ in range(10)]
        for env in envs:
            res.evaluations += 1
            want = 1 - ref_eval(orig, env)
            got = neg.evaluate(dict(env)).as_tuple()
            if got != (want, want):
                res.violation("oracle", f"Not(...) is not the complement: Not({m!r}) = {neg!r} evaluates to {got} at {env}, the original evaluates to {1 - want}",
                              {"op": "Not", "model": ast_json(ast), "env": env, "required": want, "observed": list(got)})
                break
        cases.append((lambda it, nast=nast, neg=neg, orc=orc: f"({orc.term(it)}, {form_term(nast, it)}, {dump(neg, it)})", (nast,)))
    atoms = [{"k": "str", "id": "s"}, {"k": "var", "id": "x", "b": [0, 1]}, {"k": "var", "id": "x", "b": [-2, 3]}, {"k": "var", "id": "y", "b": [1, 4]},
             {"k": "var", "id": "z", "b": [2, 2]}, {"k": "var", "id": "w", "b": [-5, -1]}, {"k": "var", "id": "u", "b": [0, 0]}, {"k": "var", "id": "v", "b": [-32768, 32767]}]
    for a in atoms:
        one(a)
    for _ in range(40 if tier == "quick" else 400):
        lo = rng.randint(-6, 6); hi = lo + rng.randint(0, 6)
        one({"k": "var", "id": rng.choice(["a", "q", "Z9", "é"]), "b": [lo, hi]})
    for ast, m, neg, orc in models[: (150 if tier == "quick" else 1500)]:
        one(ast)
    n, failing, errs = run_case_shards("C05", "notbuild", "", "idtable * form * prop", "check_build", cases, imports="Puan.Plog Puan.Sem Puan.Corr Puan.Cons Puan.CorrCons")
    res.corr_cases += n; res.evaluations += n
    for e in errs:
        res.violation("corr", "correspondence shard failed: " + e, {"check": "CorrCons.check_build", "error": e})
    for i in failing[:10]:
        (nast,) = cases[i][1]
        res.violation("corr", f"constructor model of Not differs from the implementation on {json.dumps(ast_json(nast))[:300]}",
                      {"check": "CorrCons.check_build", "model": ast_json(nast), "failing_input_found": False})

def run(res, tier, seed):
    rng = random.Random(seed * 1000003 + 5)
    res.rule = RULE
    n_models = 500 if tier == "quick" else 6000
    models = gen_models(rng, n_models, res)
    cases = []
    for ast, m, neg, orc in models:
        cm = canon(m)
        res.count("depth_%d" % depth_of(m))
        pushed = any((not is_var(x)) and int(x.sign) == 1 and any(not is_var(c) for c in x.propositions) for x in [m])
        if pushed:
            res.nt(cm); res.count("inward_push")
        if has_mixed_positive(m):
            res.count("mixed_anywhere")
        if int(m.sign) == 1 and 0 < sum(1 for c in m.propositions if is_var(c)) < len(m.propositions):
            res.count("mixed_top")
        if any(l.bounds.as_tuple() != (0, 1) for l in leaves_of(m)):
            res.count("integer_leaves")
        cases.append((lambda it, m=m, neg=neg, orc=orc: f"({orc.term(it)}, {dump(m, it)}, {dump(neg, it)})", (ast, m, neg)))
        res.sample({"model": repr(m), "negated": repr(neg)})
    n, failing, errs = run_case_shards("C05", "negate", "", "idtable * prop * prop", "check_negate", cases)
    res.corr_cases += n
    res.evaluations += n
    for e in errs:
        res.violation("corr", "correspondence shard failed: " + e, {"check": "Corr.check_negate", "error": e})
    # direct oracle on every model; escalate around disagreements
    for ast, m, neg, orc in models:
        oracle_one(res, ast, m, neg, rng, 8 if tier == "quick" else 20, exhaustive_cap=0 if tier == "quick" else 600)
    not_stream(res, tier, rng, models)
    edit_stream(res, tier, random.Random(seed * 7937 + 5), models)
    for i in failing[:10]:
        ast, m, neg = cases[i][1]
        found = not oracle_one(res, ast, m, neg, rng, 2000, exhaustive_cap=20000)
        res.violation("corr", f"model negate differs from implementation on {m!r}: implementation returned {canon(neg)}",
                      {"check": "Corr.check_negate", "model": ast_json(ast), "implementation_output": canon(neg), "failing_input_found": found})

def replay(payload):
    r = payload.get("replay", payload)
    if r.get("op") == "Not":
        neg = build({"k": "Not", "ch": [r["model"]], "id": None})
        got = neg.evaluate(dict(r["env"])).as_tuple()
        print("Not of", json.dumps(r["model"])[:300], "=", neg, "env", r["env"], "evaluates to", got, "required", r["required"])
        return 0 if got == (r["required"], r["required"]) else 1
    if r.get("op") == "negate-after-edit":
        m = apply_edit(build(r["model"]), r["edit"])
        neg = m.negate()
        want = 1 - ref_eval(m, r["env"])
        got = neg.evaluate(dict(r["env"])).as_tuple()
        print("model after the edit", m, "negated", neg, "env", r["env"], "negated evaluates to", got, "required", want)
        return 0 if got == (want, want) and ref_eval(neg, r["env"]) == want else 1
    m = build(r["model"])
    neg = m.negate()
    if "env" in r:
        got = neg.evaluate(dict(r["env"])).as_tuple()
        print("model", m, "negated", neg, "env", r["env"], "negated evaluates to", got, "required", r["required"])
        return 0 if got == (r["required"], r["required"]) else 1
    print("model", m, "negated", canon(neg))
    return 1
