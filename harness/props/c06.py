"""C06 — partial evaluation and tautology/contradiction flags are sound."""
import random, json, itertools
import puan, puan.logic.plog as pg
from common import *
from plogio import *

RULE = ("validated models (depth 0-3, all connectives, integer leaves, sharing, some pre-fixed sub-propositions) x partial / "
        "interval-valued interpretations in mixed value forms (leaf points, leaf sub-ranges, sub-proposition overrides) x random "
        "completions; flags: every compound node's is_tautology / is_contradiction / equation_bounds against brute-force "
        "enumeration of its children's boxes (corner evaluation when the box is too large, incl. the 16-bit extremes -32768 / 32767); non-trivial = the result contains a constant for a node whose own interpretation "
        "entry / declaration is not constant (a derived constant); distinct by (model, interpretation). Every model object is additionally queried two or three times in a row with look-alike interpretations (a point and a range around it, widened / narrowed ranges, int and Bounds forms): each answer must be sound for the interpretation of THAT call")

def oracle_case(res, ast, d, rng, n_comp, got=None):
    m = build(ast)
    if got is None:
        try:
            got = {k: v.as_tuple() for k, v in build(ast).evaluate_propositions(forms(d, rng)).items()}
        except Exception as e:
            return {"op": "evaluate_propositions", "model": ast_json(ast), "interpretation": {k: list(v) for k, v in d.items()},
                    "env": {}, "problem": f"evaluate_propositions raised {type(e).__name__}: {str(e)[:160]}"}
    for _ in range(n_comp):
        env = completion(m, d, rng)
        ref = {}
        ref_eval_d(m, d, env, ref)
        res.evaluations += 1
        for k, (lo, hi) in got.items():
            for v in ref.get(k, ()):
                if not (lo <= v <= hi):
                    return {"op": "evaluate_propositions", "model": ast_json(ast), "interpretation": {k: list(v) for k, v in d.items()},
                            "env": env, "problem": f"node {k}: reported bounds {(lo, hi)} do not contain its value {v} under completion {env}"}
    return None

# ---- repeated queries on ONE model object (value forms spelled out so that a replay rebuilds the same arguments)
def enc_form(v):
    if isinstance(v, puan.Bounds):
        return ["bounds", int(v.lower), int(v.upper)]
    if isinstance(v, tuple):
        return ["tuple", int(v[0]), int(v[1])]
    return ["np" if isinstance(v, np.integer) else "int", int(v)]

def dec_form(e):
    return puan.Bounds(e[1], e[2]) if e[0] == "bounds" else (e[1], e[2]) if e[0] == "tuple" else np.int64(e[1]) if e[0] == "np" else e[1]

def related_interp(m, d, rng):
    """an interpretation over the same keys as d that differs from it but looks alike: a point p becomes a
    sub-range (a, p-a) or a neighbouring point, a range (a,b) becomes (a-k, b+k) / (a+k, b-k), -1 <-> -2, all
    inside the declared bounds; given as Bounds objects / ints"""
    out = {}
    decl = {l.id: (int(l.bounds.lower), int(l.bounds.upper)) for l in leaves_of(m)}
    for k, (lo, hi) in d.items():
        if k not in decl:
            out[k] = puan.Bounds(0, 1) if (lo, hi) == (1, 1) else rng.choice([0, 1, puan.Bounds(0, 1)]); continue
        L, H = decl[k]
        opts = []
        for kk in (1, 2, 3):
            if L <= lo - kk and hi + kk <= H: opts.append(puan.Bounds(lo - kk, hi + kk))
            if lo + kk <= hi - kk: opts.append(puan.Bounds(lo + kk, hi - kk))
        if lo == hi:
            a0, a1 = max(L, lo - H), min(H, lo - L, lo // 2 + 1)
            for a in ([a0, a0 + 1, a1 - 1, a1] + ([rng.randint(a0, a1) for _ in range(3)] if a0 <= a1 else [])):
                if a <= lo - a and (a, lo - a) != (lo, hi) and L <= a and lo - a <= H:
                    opts.append(puan.Bounds(a, lo - a))
            if lo == -1 and L <= -2: opts.append(-2)
            if lo == -2 and H >= -1: opts.append(-1)
        if not opts or rng.random() < 0.2:
            v = rng.randint(L, H); opts = [v, puan.Bounds(min(v, lo), max(v, hi))]
        out[k] = rng.choice(opts)
    return out

def reuse_case(res, ast, rng, n_comp):
    """calls evaluate_propositions several times on the same object; every answer has to be sound for ITS interpretation"""
    m = build(ast)
    obj = build(ast)
    d0 = rand_interp(m, rng, p_leaf=rng.choice([0.5, 0.9]), p_comp=rng.choice([0, 0.2]), point=0.6)
    if not d0:
        return None
    seq = [{k: (int(v[0]) if v[0] == v[1] and rng.random() < 0.7 else puan.Bounds(*v)) for k, v in d0.items()}]
    for _ in range(rng.randint(1, 2)):
        seq.append(related_interp(m, norm_interp(seq[-1]), rng))
    prior = []
    for f in seq:
        d = norm_interp(f)
        try:
            got = {k: v.as_tuple() for k, v in obj.evaluate_propositions(dict(f)).items()}
        except Exception as e:
            res.count("reuse_raised:" + type(e).__name__); return None
        bad = oracle_case(res, ast, d, rng, n_comp, got=got)
        if bad:
            bad["prior_calls_on_same_object"] = prior
            bad["argument"] = {k: enc_form(v) for k, v in f.items()}
            bad["problem"] += f" (call number {len(prior) + 1} on the same model object)"
            return bad
        prior = prior + [{k: enc_form(v) for k, v in f.items()}]
    res.count("reuse_sequences")
    return None

def run_derived(obj, steps):
    """the calls made on a proposition DERIVED from obj by assume() before obj itself is asked: they must not reach obj"""
    for st in steps:
        der = obj.assume({k: dec_form(e) for k, e in st["assume"].items()})
        for call in st["then"]:
            arg = {k: dec_form(e) for k, e in call["arg"].items()}
            try:
                getattr(der, call["method"])(arg)
            except Exception:
                pass

def derived_case(res, ast, rng, n_comp):
    """d = m.assume(some leaves); calls on d that name sub-propositions of d with constants; then a partial evaluation of m:
    m's answer has to be sound for m (a derived proposition is a value of its own)"""
    m = build(ast)
    obj = build(ast)
    lv = leaves_of(m)
    comps = [x for x in all_nodes(m) if not is_var(x) and x.id != m.id]
    if not lv or not comps:
        return None
    steps = []
    for _ in range(rng.randint(1, 2)):
        l = rng.choice(lv)
        v = rng.choice([int(l.bounds.lower), int(l.bounds.upper)])
        names = rng.sample(comps, min(len(comps), rng.randint(1, 2)))
        then = [{"method": rng.choice(["evaluate", "evaluate_propositions", "assume"]), "arg": {c.id: ["int", rng.choice([0, 1])] for c in names}}]
        steps.append({"assume": {l.id: ["int", v]} if rng.random() < 0.8 else {}, "then": then})
    run_derived(obj, steps)
    d = rand_interp(m, rng, p_leaf=rng.choice([0.3, 0.6]), p_comp=0, point=0.8)
    try:
        got = {k: v.as_tuple() for k, v in obj.evaluate_propositions(dict(d)).items()}
    except Exception as e:
        got = None
        bad = {"op": "evaluate_propositions", "model": ast_json(ast), "interpretation": {k: list(v) for k, v in d.items()}, "env": {}, "problem": f"evaluate_propositions raised {type(e).__name__}: {str(e)[:160]}"}
    if got is not None:
        bad = oracle_case(res, ast, d, rng, n_comp * 2, got=got)
    if bad:
        bad["derived_first"] = steps
        bad["argument"] = {k: enc_form(v) for k, v in d.items()}
        bad["problem"] += " (after calls on propositions derived from the same model object by assume())"
        return bad
    res.count("derived_object_histories")
    return None

def flags_case(res, x, cap=3000):
    """brute force over the children's box of one compound node"""
    rngs = [range(int(c.bounds.lower), int(c.bounds.upper) + 1) for c in x.propositions]
    n = 1
    for r in rngs:
        n *= len(r)
    if n > cap:
        # box too large to enumerate: the extremes of a linear form over a box are attained at the corners
        sg = int(x.sign)
        mn = sum(min(sg * r[0], sg * r[-1]) for r in rngs) - x.value
        mx = sum(max(sg * r[0], sg * r[-1]) for r in rngs) - x.value
        res.evaluations += 1
    else:
        vals = [int(x.sign) * sum(t) - x.value for t in itertools.product(*rngs)]
        res.evaluations += n
        mn, mx = min(vals), max(vals)
    eb = tuple(int(v) for v in x.equation_bounds)
    if eb != (mn, mx):
        return f"equation_bounds {eb} but attainable range is {(mn, mx)}"
    if bool(x.is_tautology) != (mn >= 0):
        return f"is_tautology={x.is_tautology} but min over the box is {mn}"
    if bool(x.is_contradiction) != (mx < 0):
        return f"is_contradiction={x.is_contradiction} but max over the box is {mx}"
    return ""

def run(res, tier, seed):
    rng = random.Random(seed * 1000003 + 6)
    res.rule = RULE
    n_models = 300 if tier == "quick" else 3500
    per = 2 if tier == "quick" else 3
    n_comp = 6 if tier == "quick" else 25
    models = gen_valid(rng, n_models, res, constvar=0.08, big=0.15, wide=0.03)
    cases, fcases = [], []
    for ast, m in models:
        res.count("depth_%d" % depth_of(m))
        for _ in range(per):
            d = rand_interp(m, rng, p_leaf=rng.choice([0.2, 0.5, 0.8]), p_comp=rng.choice([0, 0, 0.2]))
            try:
                obs = {k: v.as_tuple() for k, v in build(ast).evaluate_propositions(forms(d, rng)).items()}
            except Exception as e:
                res.violation("oracle", f"evaluate_propositions raised {type(e).__name__}: {str(e)[:160]} on {m!r} with {d}",
                              {"op": "evaluate_propositions", "model": ast_json(ast), "interpretation": {k: list(v) for k, v in d.items()}, "env": {}, "problem": f"raised {type(e).__name__}"})
                continue
            derived = [k for k, b in obs.items() if b[0] == b[1] and d.get(k, (0, 1))[0] != d.get(k, (0, 1))[1]
                       and k in compound_ids(m)]
            if derived:
                res.nt(canon(m) + json.dumps(sorted(d.items()))); res.count("derived_constant")
            if any(v[0] != v[1] for v in d.values()):
                res.count("interval_valued")
            if any(k in compound_ids(m) for k in d):
                res.count("with_override")
            bad = oracle_case(res, ast, d, rng, n_comp)
            if bad:
                res.violation("oracle", "evaluate_propositions returned bounds a completion contradicts: " + bad["problem"] + f" on {m!r}", bad)
            fresh = build(ast)
            cases.append((lambda it, fresh=fresh, d=d, obs=obs: f"({dict_term(d, it)}, {dump(fresh, it)}, {dict_term(obs, it)}, ({z(obs[fresh.id][0])}, {z(obs[fresh.id][1])}))", (ast, d)))
            res.sample({"model": repr(m), "interpretation": {k: list(v) for k, v in d.items()}, "result": {k: list(v) for k, v in obs.items()}})
        bad = reuse_case(res, ast, rng, n_comp)
        if bad:
            res.violation("oracle", "evaluate_propositions returned bounds a completion contradicts: " + bad["problem"] + f" on {m!r}", bad)
        bad = derived_case(res, ast, rng, n_comp)
        if bad:
            res.violation("oracle", "evaluate_propositions returned bounds a completion contradicts: " + bad["problem"] + f" on {m!r}", bad)
        for x in all_nodes(m):
            if is_var(x):
                continue
            try:
                r = flags_case(res, x)
            except Exception as e:
                r = f"is_tautology / is_contradiction / equation_bounds raised {type(e).__name__}: {str(e)[:160]}"
            res.count("flags_checked")
            if any(int(c.bounds.lower) <= -32768 or int(c.bounds.upper) >= 32767 for c in x.propositions):
                res.count("flags_with_16bit_extreme_child")
            if r:
                res.violation("oracle", f"flags of node {x!r} wrong: {r}", {"op": "flags", "model": ast_json(ast), "node": x.id, "problem": r})
                if "raised" in r:
                    continue
            if x.is_tautology: res.count("flag_tautology")
            if x.is_contradiction: res.count("flag_contradiction")
            fcases.append((lambda it, x=x: f"({dump(x, it)}, {b(bool(x.is_tautology))}, {b(bool(x.is_contradiction))}, ({z(x.equation_bounds[0])}, {z(x.equation_bounds[1])}))", (ast, x.id)))
    # sums and thresholds beyond 2^53 (well inside 64 bits): a partial interpretation fixes the large leaf, the small ones stay open
    brng = random.Random(seed * 7951 + 6)
    for _ in range(30 if tier == "quick" else 300):
        Mb = brng.choice([2 ** 53, 2 ** 53, 2 ** 60, 3 * 2 ** 59])
        kids = [{"k": "var", "id": "x", "b": [0, Mb + 16]}, {"k": "var", "id": "y", "b": [0, 1]}] + ([{"k": "str", "id": "z"}] if brng.random() < 0.5 else [])
        thr = Mb + brng.randint(0, 6)
        node = brng.choice([{"k": "AtLeast", "v": thr, "s": None, "ch": kids, "id": "A"}, {"k": "AtMost", "v": thr, "ch": kids, "id": "A"},
                            {"k": "AtLeast", "v": -thr, "s": -1, "ch": kids, "id": "A"}])
        ast = node if brng.random() < 0.6 else {"k": brng.choice(["Any", "All"]), "ch": [node, {"k": "str", "id": "w"}], "id": "T"}
        try:
            m = build(ast)
            if m.errors():
                continue
        except Exception:
            continue
        d = {"x": (Mb + brng.randint(-2, 8),) * 2}
        if brng.random() < 0.4:
            d["y"] = (brng.randint(0, 1),) * 2
        res.count("beyond_2^53")
        bad = oracle_case(res, ast, d, brng, 8)
        if bad:
            res.violation("oracle", "evaluate_propositions returned bounds a completion contradicts: " + bad["problem"] + f" on {m!r}", bad)
    n, failing, errs = run_case_shards("C06", "evalprops", "", "interp * prop * list (ident * (Z * Z)) * (Z * Z)", "check_evalprops", cases)
    n2, failing2, errs2 = run_case_shards("C06", "flags", "", "prop * bool * bool * (Z * Z)", "check_flags", fcases)
    res.corr_cases += n + n2; res.evaluations += n + n2
    for e in errs + errs2:
        res.violation("corr", "correspondence shard failed: " + e, {"check": "Corr.check_evalprops/check_flags", "error": e})
    for i in failing[:10]:
        ast, d = cases[i][1]
        found = False
        for _ in range(200):
            d2 = rand_interp(build(ast), rng, p_leaf=rng.random(), p_comp=0.2)
            bad = oracle_case(res, ast, d2, rng, 50)
            if bad:
                res.violation("oracle", "evaluate_propositions returned bounds a completion contradicts: " + bad["problem"], bad); found = True
                break
        res.violation("corr", f"model evaluate_propositions differs from implementation on {build(ast)!r} with {d}",
                      {"check": "Corr.check_evalprops", "model": ast_json(ast), "interpretation": {k: list(v) for k, v in d.items()}, "failing_input_found": found})
    for i in failing2[:10]:
        ast, nid = fcases[i][1]
        res.violation("corr", f"model flags differ from implementation for node {nid} of {build(ast)!r}",
                      {"check": "Corr.check_flags", "model": ast_json(ast), "node": nid, "failing_input_found": False})

def replay(payload):
    r = payload.get("replay", payload)
    ast = r["model"]
    class R: evaluations = 0
    if r.get("op") == "flags":
        x = [n for n in all_nodes(build(ast)) if n.id == r["node"]][0]
        try:
            p = flags_case(R, x, cap=10**7)
        except Exception as e:
            p = f"raised {type(e).__name__}: {e}"
        print("node", x, "->", "FAILS: " + p if p else "holds")
        return 1 if p else 0
    d = {k: tuple(v) for k, v in r["interpretation"].items()}
    m = build(ast)
    obj = build(ast)
    for f in r.get("prior_calls_on_same_object", []):
        obj.evaluate_propositions({k: dec_form(e) for k, e in f.items()})
    run_derived(obj, r.get("derived_first", []))
    arg = {k: dec_form(e) for k, e in r["argument"].items()} if "argument" in r else dict(d)
    got = {k: v.as_tuple() for k, v in obj.evaluate_propositions(arg).items()}
    ref = {}
    ref_eval_d(m, d, r["env"], ref)
    bad = [(k, got[k], sorted(ref[k])) for k in got if any(not (got[k][0] <= v <= got[k][1]) for v in ref.get(k, ()))]
    print("model", m, "interpretation", d, "completion", r["env"], "->", f"FAILS: {bad}" if bad else "holds")
    return 1 if bad else 0
