"""C20 — id/position bridges of puan.ndarray are faithful: construct, from_list / to_list,
boolean / integer variable indices, ge_polyhedron.A / b / to_linalg."""
import random, json, math
import numpy as np
import puan, puan.ndarray as pnd
from common import *
from bridgeio import *

RULE = ("variable lists of 0-7 variables with str (ascii, unicode, empty, digit look-alikes) and int ids, mixed bounds; "
        "non-trivial = construct: the dictionary has both a known and an unknown id and at least one column takes the default; "
        "from_list: the list is non-empty and the context has both listed and unlisted entries; to_list: a row has both 1 and non-1 entries; "
        "indices: both boolean and integer variables present; A/b: >= 1 row and >= 2 columns; distinct by canonical text of the input")

IMPORTS = "Puan.Bridge Puan.CorrBridge"

# ----------------------------------------------------------------------------- construct
def gen_construct(rng):
    vs = gen_vars(rng, 0, 7, dup=0.05 if rng.random() < 0.2 else 0.0)
    dtn = rng.choice(list(DTYPES))
    d = gen_dict(rng, [v.id for v in vs], big=dtype_big(dtn))
    r = rng.random()
    dv = gen_dfun(rng) if r < 0.4 else None
    raw = None if dv is not None or r < 0.8 else rng.choice([0, 5, "x"])   # non-callable default_value
    if dv is not None:
        f = dfun_callable(dv)
        if any(abs(f(v)) > dtype_big(dtn) for v in vs):
            dtn = "int64" if dtn in INT_DTYPES else "float64"
    if dtn in ("int16",) and any(abs(int(v.bounds.lower)) > 2 ** 14 for v in vs):
        dtn = "int32"
    return {"vars": [vjson(v) for v in vs], "dict": [[k, v] for k, v in d.items()], "dfun": dv, "raw_default": raw, "dtype": dtn}

def run_construct(c):
    vs = vars_from_json(c["vars"])
    arr = pnd.variable_ndarray(np.zeros((1, len(vs)), dtype=np.int64), variables=vs) if vs else None
    d = {k: v for k, v in c["dict"]}
    # any dict will do, also the standard subclasses (chosen from the data so that a replay passes the same kind)
    import collections
    kind = (len(d) + sum(abs(int(v)) for v in d.values() if isinstance(v, (int, np.integer)))) % 7
    if kind == 1: d = collections.OrderedDict(d)
    elif kind == 2: d = collections.defaultdict(int, d)
    elif kind == 3 and all(isinstance(v, (int, np.integer)) for v in d.values()): d = collections.Counter(d)
    default = dfun_callable(c["dfun"]) if c["dfun"] is not None else c["raw_default"]
    if arr is None:
        # an empty variable list is replaced by defaults in the constructor: use an array with 0 columns
        arr = pnd.variable_ndarray(np.zeros((1, 0), dtype=np.int64))
        vs = list(arr.variables)
    out = arr.construct(d, default, DTYPES[c["dtype"]])
    return vs, d, default, out

def oracle_construct(c):
    """the property statement, executed: None if it holds, else a description"""
    vs, d, default, out = run_construct(c)
    isint = c["dtype"] in INT_DTYPES
    if out.shape != (len(vs),):
        return f"construct returned shape {out.shape} for {len(vs)} variables"
    if out.dtype != np.dtype(DTYPES[c["dtype"]]):
        return f"construct returned dtype {out.dtype}, requested {c['dtype']}"
    for j, v in enumerate(vs):
        if v.id in d:
            want = d[v.id]
        elif callable(default):
            want = default(v)
        elif isint:
            want = int(v.bounds.lower)
        else:
            want = None
        got = out[j]
        ok = (isinstance(got, (float, np.floating)) and math.isnan(got)) if want is None else (not (isinstance(got, (float, np.floating)) and math.isnan(got)) and int(got) == want and float(got) == want)
        if not ok:
            return f"column {j} (variable {v.id!r} bounds {v.bounds.as_tuple()}): got {got!r}, required {'NaN' if want is None else want}"
    known = {v.id for v in vs}
    arr2 = pnd.variable_ndarray(np.zeros((1, len(vs)), dtype=np.int64), variables=vs) if vs else pnd.variable_ndarray(np.zeros((1, 0), dtype=np.int64))
    out2 = arr2.construct({k: v for k, v in d.items() if k in known}, default, DTYPES[c["dtype"]])
    if not np.array_equal(out, out2, equal_nan=True):
        return f"unknown ids changed the result: {out.tolist()} vs {out2.tolist()}"
    return None

def term_construct(c, out):
    def t(it):
        vs, d = vars_from_json(c["vars"]), c["dict"]
        dv = "None" if c["dfun"] is None else "(Some (%s, %s, %s, %s))" % tuple(z(x) for x in c["dfun"])
        return f"({vars_t(vs, it)}, {dict_t(d, it)}, {dv}, {'DInt' if c['dtype'] in INT_DTYPES else 'DFloat'}, {lst(cell_t(x) for x in out.tolist())})"
    return t

# ----------------------------------------------------------------------------- from_list
def gen_from_list(rng, nested):
    ctx = gen_ids(rng, rng.randint(0, 7), dup=0.15 if rng.random() < 0.3 else 0.0)
    pool = ctx + gen_ids(rng, 3)
    def one(allow_empty):
        k = rng.randint(0 if allow_empty else 1, 5)
        return [rng.choice(pool) for _ in range(k)] if pool else []
    is_int = rng.random() < 0.5
    if nested:
        n = rng.randint(1, 4)
        ll = [one(False) for _ in range(n)]
        if not all(ll) or not pool:
            ll = [[0] for _ in range(n)]
        if not is_int and rng.random() < 0.3:
            pass
        return {"int": is_int, "lists": ll, "ctx": ctx}
    return {"int": is_int, "list": one(rng.random() < 0.15), "ctx": ctx}

def run_from_list(c):
    cls = pnd.integer_ndarray if c["int"] else pnd.boolean_ndarray
    arg = [list(l) for l in c["lists"]] if "lists" in c else list(c["list"])
    return cls.from_list(arg, list(c["ctx"]))

def same_id(a, bb):
    return type(a) == type(bb) and a == bb

def oracle_from_list(c):
    out = run_from_list(c)
    ctx = c["ctx"]
    want_cls = pnd.integer_ndarray if c["int"] else pnd.boolean_ndarray
    if type(out) is not want_cls:
        return f"from_list returned {type(out).__name__}"
    rows = c["lists"] if "lists" in c else [c["list"]]
    got = out.tolist() if "lists" in c else [out.tolist()]
    if len(got) != len(rows):
        return f"{len(got)} rows for {len(rows)} lists"
    for l, g in zip(rows, got):
        if len(l) == 0:
            if g != []:
                return f"empty list gave {g}"
            continue
        if len(g) != len(ctx):
            return f"row length {len(g)} for context of {len(ctx)}"
        for j, x in enumerate(ctx):
            pos = [p for p, y in enumerate(l) if same_id(x, y)]
            want = 0 if not pos else (pos[0] + 1 if c["int"] else 1)
            if g[j] != want:
                return f"context position {j} (id {x!r}) in list {l}: got {g[j]}, required {want}"
    return None

def term_from_list(c, out):
    def t(it):
        ctx = lst(vid(i, it) for i in c["ctx"])
        if "lists" in c:
            return f"({b(c['int'])}, {lst(lst(vid(i, it) for i in l) for l in c['lists'])}, {ctx}, {zm(out.tolist())})"
        return f"({b(c['int'])}, {lst(vid(i, it) for i in c['list'])}, {ctx}, {zl(out.tolist())}, {vars_t(list(out.variables), it)})"
    return t

# ----------------------------------------------------------------------------- to_list
def gen_to_list(rng):
    vs = gen_vars(rng, 1, 7)
    n = len(vs)
    rows = []
    for _ in range(rng.randint(1, 4)):
        r = rng.random()
        rows.append([rng.choice([0, 1, 1, 0, 2, -1]) if r < 0.3 else rng.choice([0, 1]) for _ in range(n)])
    return {"vars": [vjson(v) for v in vs], "rows": rows, "skip": rng.choice([None, None, True, False])}

def run_to_list(c):
    vs = vars_from_json(c["vars"])
    a2 = pnd.boolean_ndarray(c["rows"], variables=vs)
    a1 = pnd.boolean_ndarray(c["rows"][0], variables=vs)
    kw = {} if c.get("skip") is None else {"skip_virtual_variables": c["skip"]}      # documented flag; the answer is the same
    return vs, a2.to_list(**kw), a1.to_list(**kw)

def oracle_to_list(c):
    vs, l2, l1 = run_to_list(c)
    if len(l2) != len(c["rows"]):
        return f"{len(l2)} lists for {len(c['rows'])} rows"
    for row, got in zip(c["rows"] + [c["rows"][0]], l2 + [l1]):
        want = [vkey(vs[j]) for j, x in enumerate(row) if x == 1]
        if [vkey(v) for v in got] != want:
            return f"row {row}: got {[v.id for v in got]}, required the variables at the 1-entries {[w[1] for w in want]}"
    # round trip through from_list with the ids as context
    ids = [v.id for v in vs]
    if len(set((type(i).__name__, i) for i in ids)) == len(ids):
        for got in l2:
            if got:
                back = pnd.boolean_ndarray(pnd.boolean_ndarray.from_list([v.id for v in got], ids), variables=vs).to_list()
                if [vkey(v) for v in back] != [vkey(v) for v in got]:
                    return f"to_list(from_list(ids)) changed {[v.id for v in got]} into {[v.id for v in back]}"
    return None

def term_to_list(c, l2, l1):
    def t(it):
        return f"({vars_t(vars_from_json(c['vars']), it)}, {zm(c['rows'])}, {lst(vars_t(l, it) for l in l2)}, {vars_t(l1, it)})"
    return t

# ----------------------------------------------------------------------------- variable indices
def gen_indices(rng):
    c = {"vars": [vjson(v) for v in gen_vars(rng, 0, 8, dup=0.1 if rng.random() < 0.2 else 0.0)]}
    if len(c["vars"]) >= 2 and rng.random() < 0.3:
        # the array asked is a view of the declared one (its first k columns, or two rows of it transposed): views keep the variable
        # list they were cut from, and the index sets are those of that list
        c["view"] = rng.choice([["cols", rng.randint(1, len(c["vars"]) - 1)], ["T"], ["sum"]])
    return c

def run_indices(c):
    vs = vars_from_json(c["vars"])
    arr = pnd.variable_ndarray(np.zeros((1, len(vs)), dtype=np.int64), variables=vs) if vs else pnd.variable_ndarray(np.zeros((1, 0), dtype=np.int64))
    vw = c.get("view")
    if vw:
        arr = arr[:, :vw[1]] if vw[0] == "cols" else arr.T if vw[0] == "T" else arr.sum(axis=1)
    return list(arr.variables), [int(x) for x in arr.boolean_variable_indices.tolist()], [int(x) for x in arr.integer_variable_indices.tolist()]

def oracle_indices(c):
    vs, bi, ii = run_indices(c)
    wb = [j for j, v in enumerate(vs) if (int(v.bounds.lower), int(v.bounds.upper)) == (0, 1)]
    wi = [j for j, v in enumerate(vs) if (int(v.bounds.lower), int(v.bounds.upper)) != (0, 1)]
    if bi != wb or ii != wi:
        return f"bounds {[v.bounds.as_tuple() for v in vs]}: boolean indices {bi} (required {wb}), integer indices {ii} (required {wi})"
    if sorted(bi + ii) != list(range(len(vs))):
        return f"index sets {bi} and {ii} do not partition range({len(vs)})"
    return None

def term_indices(c, vs, bi, ii):
    return lambda it: f"({vars_t(vs, it)}, {zl(bi)}, {zl(ii)})"

# ----------------------------------------------------------------------------- A / b / to_linalg
def gen_Ab(rng):
    nr, nc = rng.randint(0, 4), rng.randint(1, 6)
    m = [[rng.choice([0, 0, 1, -1, 2, -3, 7, rng.randint(-1000, 1000)]) for _ in range(nc)] for _ in range(nr)]
    vs = gen_vars(rng, nc, nc) if rng.random() < 0.75 else []
    if len(vs) != nc:
        vs = []
    ix = gen_vars(rng, nr, nr) if rng.random() < 0.5 else []
    if len(ix) != nr:
        ix = []
    if vs and nc >= 2 and rng.random() < 0.12:
        # a column variable that looks like the support variable (integer id 0, bounds (1,1)) somewhere else than in front
        k0 = rng.randrange(1, nc)
        vs = [v for v in vs]
        vs[k0] = puan.variable(0, (1, 1))
        if any(vkey(v) == vkey(vs[k0]) for j, v in enumerate(vs) if j != k0):
            vs[k0] = puan.variable(0, (1, 1))
    c = {"nr": nr, "nc": nc, "m": m, "vars": [vjson(v) for v in vs], "index": [vjson(v) for v in ix]}
    flat = [x for r in m for x in r]
    if flat and rng.random() < 0.4:
        # the polyhedron is an array: it may be stored in a narrower integer type, and it may be written to after A was
        # read once - A and b are those of the polyhedron as it is when they are asked for
        fits = [d for d, lim in (("int8", 2 ** 7), ("int16", 2 ** 15), ("int32", 2 ** 31)) if all(-lim <= x < lim for x in flat)]
        c["dtype"] = rng.choice(fits + ["int64"])
        if nr and rng.random() < 0.7:
            c["edit"] = [rng.randrange(nr), rng.randrange(nc), rng.choice([0, 1, -1, 5, -7])]
    return c

def run_Ab(c):
    m = np.array(c["m"], dtype=np.int64).reshape(c["nr"], c["nc"])
    if c.get("dtype"):
        dt = getattr(np, c["dtype"])
        p = pnd.ge_polyhedron(m.astype(dt), variables=vars_from_json(c["vars"]), index=vars_from_json(c["index"]), dtype=dt)
    else:
        p = pnd.ge_polyhedron(m, variables=vars_from_json(c["vars"]), index=vars_from_json(c["index"]))
    if c.get("edit"):
        _ = p.A, p.b, p.to_linalg()              # asked once before the write
        i, j, v = c["edit"]
        p[i, j] = v
    A, bb = p.A, p.b
    A2, b2 = p.to_linalg()
    return p, A, bb, A2, b2

def oracle_Ab(c):
    p, A, bb, A2, b2 = run_Ab(c)
    M = np.asarray(p)
    if A.shape != (c["nr"], c["nc"] - 1) or bb.shape != (c["nr"],):
        return f"shapes: A {A.shape}, b {bb.shape} for a polyhedron of shape {M.shape}"
    for i in range(c["nr"]):
        if int(bb[i]) != int(M[i][0]):
            return f"b[{i}] = {int(bb[i])}, first column has {int(M[i][0])}"
        for j in range(c["nc"] - 1):
            if int(A[i][j]) != int(M[i][j + 1]):
                return f"A[{i}][{j}] = {int(A[i][j])}, matrix column {j + 1} has {int(M[i][j + 1])}"
    if [vkey(v) for v in A.variables] != [vkey(v) for v in list(p.variables)[1:]]:
        return f"A.variables {[v.id for v in A.variables]} do not match variables[1:] {[v.id for v in list(p.variables)[1:]]}"
    if [vkey(v) for v in A.index] != [vkey(v) for v in p.index]:
        return f"A.index {[v.id for v in A.index]} does not match index {[v.id for v in p.index]}"
    if c["vars"] and [vkey(v) for v in p.variables] != [vkey(v) for v in vars_from_json(c["vars"])]:
        return "the polyhedron does not carry the variables it was given"
    if not (np.array_equal(A, A2) and np.array_equal(bb, b2) and [vkey(v) for v in A2.variables] == [vkey(v) for v in A.variables]):
        return "to_linalg() differs from (A, b)"
    return None

def vnd_t(arr, it):
    return f"(mkVnd {zm(np.asarray(arr).tolist())} {vars_t(list(arr.variables), it)} {vars_t(list(arr.index), it)})"

def term_Ab(c, p, A, bb):
    def t(it):
        m = [list(r) for r in c["m"]]
        if c.get("edit"):                       # the matrix the polyhedron holds when A and b are asked for
            i, j, v = c["edit"]; m[i][j] = v
        return (f"({c['nr']}%nat, {c['nc']}%nat, {zm(m)}, {vars_t(vars_from_json(c['vars']), it)}, {vars_t(vars_from_json(c['index']), it)}, "
                f"({vnd_t(p, it)}, {vnd_t(A, it)}, {zl(bb.tolist())}))")
    return t

# ----------------------------------------------------------------------------- driver
OPS = {
    "construct": dict(gen=gen_construct, oracle=oracle_construct, ctype="list var * dict * option dfun * dtype * list cell", check="check_construct"),
    "from_list": dict(gen=lambda r: gen_from_list(r, False), oracle=oracle_from_list, ctype="bool * list vid * list vid * list Z * list var", check="check_from_list"),
    "from_lists": dict(gen=lambda r: gen_from_list(r, True), oracle=oracle_from_list, ctype="bool * list (list vid) * list vid * list (list Z)", check="check_from_lists"),
    "to_list": dict(gen=gen_to_list, oracle=oracle_to_list, ctype="list var * list (list Z) * list (list var) * list var", check="check_to_list"),
    "indices": dict(gen=gen_indices, oracle=oracle_indices, ctype="list var * list Z * list Z", check="check_indices"),
    "Ab": dict(gen=gen_Ab, oracle=oracle_Ab, ctype="nat * nat * list (list Z) * list var * list var * (vnd * vnd * list Z)", check="check_Ab"),
}
QUICK = {"construct": 320, "from_list": 160, "from_lists": 70, "to_list": 110, "indices": 100, "Ab": 130}

def make_term(op, c):
    if op == "construct":
        return term_construct(c, run_construct(c)[3])
    if op in ("from_list", "from_lists"):
        return term_from_list(c, run_from_list(c))
    if op == "to_list":
        vs, l2, l1 = run_to_list(c)
        return term_to_list(c, l2, l1)
    if op == "indices":
        return term_indices(c, *run_indices(c))
    p, A, bb, _, _ = run_Ab(c)
    return term_Ab(c, p, A, bb)

def classify(res, op, c):
    """distribution counters and the non-triviality rule"""
    canon = op + ":" + json.dumps(c, sort_keys=True, ensure_ascii=False)
    if op == "construct":
        known = [v[0] for v in c["vars"]]
        keys = [k for k, _ in c["dict"]]
        nk = sum(1 for k in keys if any(same_id(k, i) for i in known))
        nu = len(keys) - nk
        ndef = sum(1 for i in known if not any(same_id(k, i) for k in keys))
        res.count("construct_dtype_" + ("int" if c["dtype"] in INT_DTYPES else "float"))
        res.count("construct_default_" + ("callable" if c["dfun"] is not None else "noncallable" if c["raw_default"] is not None else "none"))
        if nu: res.count("construct_unknown_ids")
        if any(is_int_id(i) for i in known): res.count("construct_int_ids")
        if any(isinstance(i, str) and not i.isascii() for i in known): res.count("construct_unicode_ids")
        if len(set(map(repr, known))) < len(known): res.count("construct_duplicate_ids")
        if any((lo, hi) != (0, 1) for _, lo, hi in c["vars"]): res.count("construct_nonbool_bounds")
        if nk and nu and ndef:
            res.nt(canon); res.count("nontrivial_construct")
    elif op in ("from_list", "from_lists"):
        rows = c["lists"] if "lists" in c else [c["list"]]
        res.count(("int_" if c["int"] else "bool_") + op)
        hit = False
        for l in rows:
            if not l:
                res.count("from_list_empty_list"); continue
            inn = [any(same_id(x, y) for y in l) for x in c["ctx"]]
            if len(set(map(repr, l))) < len(l): res.count("from_list_repeated_entry")
            if any(not any(same_id(x, y) for x in c["ctx"]) for y in l): res.count("from_list_entry_outside_context")
            if any(inn) and not all(inn): hit = True
        if hit:
            res.nt(canon); res.count("nontrivial_from_list")
    elif op == "to_list":
        if any(x not in (0, 1) for r in c["rows"] for x in r): res.count("to_list_non01_entries")
        if any(1 in r and any(x != 1 for x in r) for r in c["rows"]):
            res.nt(canon); res.count("nontrivial_to_list")
    elif op == "indices":
        bs = [(lo, hi) == (0, 1) for _, lo, hi in c["vars"]]
        if any(bs) and not all(bs):
            res.nt(canon); res.count("nontrivial_indices")
    elif op == "Ab":
        if not c["vars"]: res.count("Ab_default_variables")
        if not c["index"]: res.count("Ab_default_index")
        if c["nr"] == 0: res.count("Ab_zero_rows")
        if c["nc"] == 1: res.count("Ab_only_b_column")
        if c["nr"] >= 1 and c["nc"] >= 2:
            res.nt(canon); res.count("nontrivial_Ab")

def exhaustive_small(res):
    """every context/list over a 3-id alphabet up to length 3 (from_list), every 0/1/2 row of length <= 4 (to_list)"""
    import itertools
    alpha = ["a", 1, "1"]
    n = 0
    for lc in range(0, 4):
        for ctx in itertools.product(alpha, repeat=lc):
            for ll in range(0, 4):
                for l in itertools.product(alpha, repeat=ll):
                    for is_int in (False, True):
                        c = {"int": is_int, "list": list(l), "ctx": list(ctx)}
                        n += 1
                        bad = oracle_from_list(c)
                        if bad:
                            res.violation("oracle", "from_list: " + bad, {"op": "from_list", "case": c})
                            return n
    vs = [["a", 0, 1], [3, 0, 5], ["ü", 1, 1], ["d", 0, 1]]
    for k in range(1, 5):
        for row in itertools.product([0, 1, 2], repeat=k):
            c = {"vars": vs[:k], "rows": [list(row)]}
            n += 1
            bad = oracle_to_list(c)
            if bad:
                res.violation("oracle", "to_list: " + bad, {"op": "to_list", "case": c})
                return n
    return n

def gen_large(op, rng):
    """the same operations at the sizes configurators produce (a hundred variables, thousands of matrix entries)"""
    def big_vars(n):
        return [puan.variable((f"x{i}" if i % 7 else i), rng.choice(BOUNDS)) for i in rng.sample(range(1, 400), n)]
    if op == "indices":
        return {"vars": [vjson(v) for v in big_vars(rng.randint(70, 160))]}
    if op == "construct":
        vs = big_vars(rng.randint(70, 160))
        d = gen_dict(rng, [v.id for v in vs], big=2 ** 30, kmax=40)
        return {"vars": [vjson(v) for v in vs], "dict": [[k, v] for k, v in d.items()], "dfun": None, "raw_default": None, "dtype": "int64"}
    nr, nc = rng.randint(60, 80), rng.randint(66, 80)
    m = [[(rng.choice([1, -1, 2, -3]) if rng.random() < 0.05 else 0) for _ in range(nc)] if rng.random() > 0.1 else [0] * nc for _ in range(nr)]
    return {"nr": nr, "nc": nc, "m": m, "vars": [vjson(v) for v in big_vars(nc)], "index": []}

def run(res, tier, seed):
    rng = random.Random(seed * 1000003 + 20)
    res.rule = RULE
    for op in ("indices", "construct", "Ab"):
        if op not in OPS:
            raise KeyError(op)
        for _ in range(4 if tier == "quick" else 40):
            c = gen_large(op, random.Random(rng.getrandbits(64)))
            res.count("large_" + op)
            try:
                bad = OPS[op]["oracle"](c)
            except Exception as e:
                bad = f"raised {type(e).__name__}: {e}"
            res.evaluations += 1
            if bad:
                res.violation("oracle", f"{op}: {bad}; input {json.dumps(c, ensure_ascii=False)[:600]}", {"op": op, "case": c, "earlier_cases_in_this_process": []})
    mult = 1 if tier == "quick" else 12
    for op, spec in OPS.items():
        n = QUICK[op] * mult
        cases, payloads = [], []
        history = []
        for _ in range(n):
            c = spec["gen"](random.Random(rng.getrandbits(64)))
            res.count("op_" + op)
            classify(res, op, c)
            # direct oracle first: a counterexample is a concrete failing input
            try:
                bad = spec["oracle"](c)
            except Exception as e:
                bad = f"raised {type(e).__name__}: {e}"
            res.evaluations += 1
            if bad:
                # the answer may depend on what was asked before in this process: the replay re-asks the earlier cases that
                # mention one of this case's ids (most recent last) before this one
                ids = {json.dumps(v[0]) for v in c.get("vars", [])}
                earlier = [h for h in history if ids & {json.dumps(v[0]) for v in h.get("vars", [])}][-6:]
                res.violation("oracle", f"{op}: {bad}; input {json.dumps(c, ensure_ascii=False)[:600]}", {"op": op, "case": c, "earlier_cases_in_this_process": earlier})
            history.append(c)
            try:
                cases.append((make_term(op, c), c))
            except Exception as e:
                res.violation("corr", f"{op}: cannot print the observed output: {type(e).__name__}: {e}", {"op": op, "case": c})
            if len(res.samples) < 6 and len(cases) % 37 == 1:
                res.sample({"op": op, "input": c})
        nn, failing, errs = run_case_shards("C20", op, "", spec["ctype"], spec["check"], cases, imports=IMPORTS)
        res.corr_cases += nn
        res.evaluations += nn
        for e in errs:
            res.violation("corr", f"correspondence shard failed ({op}): " + e, {"check": "CorrBridge." + spec["check"], "error": e})
        for i in failing[:10]:
            c = cases[i][1]
            # escalate: mutate around the disagreeing case with the direct oracle
            found = False
            r2 = random.Random(i)
            for _ in range(400):
                c2 = spec["gen"](r2)
                try:
                    bad = spec["oracle"](c2)
                except Exception as e:
                    bad = f"raised {type(e).__name__}: {e}"
                if bad:
                    res.violation("oracle", f"{op}: {bad}", {"op": op, "case": c2})
                    found = True
                    break
            res.violation("corr", f"{op}: model and implementation disagree on {json.dumps(c, ensure_ascii=False)[:500]}",
                          {"check": "CorrBridge." + spec["check"], "op": op, "case": c, "failing_input_found": found})
    if tier != "quick":
        k = exhaustive_small(res)
        res.evaluations += k
        res.count("exhaustive_small_cases", k)
        res.notes.append("thorough: from_list enumerated for every list/context of length <= 3 over the ids {'a', 1, '1'} (both array classes); to_list for every row over {0,1,2} of length <= 4")

def replay(payload):
    r = payload.get("replay", payload)
    op, c = r["op"], r["case"]
    for h in r.get("earlier_cases_in_this_process", []):
        try:
            OPS[op]["oracle"](h)
        except Exception:
            pass
    bad = OPS[op]["oracle"](c)
    print(op, json.dumps(c, ensure_ascii=False))
    print("property holds on this input" if not bad else "FAILS: " + bad)
    return 1 if bad else 0
