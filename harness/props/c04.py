"""C04 — connectives have their documented truth functions."""
import random, json, itertools
import puan, puan.logic.plog as pg
from common import *
from plogio import *

RULE = ("constructor trees over a boolean leaf alphabet (All, Any, AtLeast with default and explicit sign, AtMost, Xor, XNor, Imply, Not; nested to "
        "depth 0-3, explicit and generated ids, str and puan.variable leaves), built through the Python constructors; ALL 0/1 assignments of "
        "the leaves are enumerated for every formula; thorough additionally enumerates every formula of a small grammar exhaustively; non-trivial "
        "= nesting depth >= 2 with a negating connective (Not/Imply/XNor) over a child list that mixes atoms and sub-propositions; distinct by canonical text. "
        "Correspondence: the constructor model Cons.build (Coq) must produce exactly the structure the Python constructors produce (ids through the id oracle)")

NEGATING = ("Not", "Imply", "XNor")
def has_neg_over_mixed(ast):
    def mixed(a):
        ch = a.get("ch", [])
        na = sum(1 for c in ch if c["k"] in ("str", "var"))
        return 0 < na < len(ch)
    def go(a, under_neg):
        if a["k"] in ("str", "var"):
            return False
        if under_neg and mixed(a):
            return True
        return any(go(c, under_neg or a["k"] in NEGATING) for c in a.get("ch", []))
    return go(ast, False)

def oracle_formula(res, ast, m):
    lv = leaves_of(m)
    ids = [l.id for l in lv]
    for vals in itertools.product([0, 1], repeat=len(ids)):
        env = dict(zip(ids, vals))
        res.evaluations += 1
        want = ast_sem(ast, env)
        got = m.evaluate(dict(env)).as_tuple()
        if got != (want, want):
            return {"op": "truth-function", "model": ast_json(ast), "env": env, "required": want, "observed": list(got),
                    "problem": f"evaluates to {got} at {env}, documented truth function gives {want}"}
    return None

def small_grammar(depth, leaves):
    """all formulas of a small grammar (used exhaustively in the thorough tier)"""
    L = [{"k": "str", "id": x} for x in leaves]
    if depth == 0:
        return L
    sub = small_grammar(depth - 1, leaves)
    out = list(L)
    pairs = [(a, b) for a in sub for b in sub if a is not b and json.dumps(ast_json(a)) < json.dumps(ast_json(b))]
    for a, b in pairs:
        for k in ("All", "Any", "Xor", "XNor"):
            out.append({"k": k, "ch": [a, b], "id": None})
        out.append({"k": "Imply", "ch": [a, b], "id": None}); out.append({"k": "Imply", "ch": [b, a], "id": None})
        out.append({"k": "AtMost", "v": 1, "ch": [a, b], "id": None})
    for a in sub:
        out.append({"k": "Not", "ch": [a], "id": None})
    return out

def run(res, tier, seed):
    rng = random.Random(seed * 1000003 + 4)
    res.rule = RULE
    n_models = 800 if tier == "quick" else 6000
    cases, seen = [], 0
    tries = 0
    asts = []
    while len(asts) < n_models and tries < n_models * 6:
        tries += 1
        kinds = None if tries % 2 else ["Not", "Imply", "XNor", "All", "Any", "AtLeast", "Xor", "Not", "Imply"]
        g = ModelGen(random.Random(rng.getrandbits(64)), int_leaves=0.0, big=0.0, share=0.1, kinds=kinds)
        ast = g.prop(rng.randint(0, 3) if tries % 2 else rng.randint(2, 3))
        if ast["k"] == "AtLeast" and False:
            continue
        asts.append(ast)
    if tier != "quick":
        gram = small_grammar(2, ["a", "b", "c"])
        rng.shuffle(gram)
        asts.extend(gram[:6000]); res.count("small_grammar_formulas", min(len(gram), 6000))
        res.notes.append(f"small grammar: {len(gram)} formulas of depth <= 2 over 3 leaves, {min(len(gram), 6000)} used, all 2^3 assignments each")
    for ast in asts:
        orc = IdOracle()
        try:
            with orc:
                m = build(ast)
        except Exception as e:
            res.count("build_error:" + type(e).__name__); continue
        if is_var(m):
            continue
        if m.errors():
            res.count("skipped_invalid"); continue
        res.count("kind_" + ast["k"]); res.count("depth_%d" % ast_depth(ast))
        if ast_depth(ast) >= 2 and has_neg_over_mixed(ast):
            res.nt(canon(m)); res.count("negating_over_mixed")
        bad = oracle_formula(res, ast, m)
        if bad:
            res.violation("oracle", f"{m!r} built from {json.dumps(ast_json(ast))[:300]}: {bad['problem']}", bad)
        cases.append((lambda it, ast=ast, m=m, orc=orc: f"({orc.term(it)}, {form_term(ast, it)}, {dump(m, it)})", (ast,)))
        res.sample({"formula": json.dumps(ast_json(ast))[:400], "model": repr(m)})
    n, failing, errs = run_case_shards("C04", "build", "", "idtable * form * prop", "check_build", cases, imports="Puan.Plog Puan.Sem Puan.Corr Puan.Cons Puan.CorrCons")
    res.corr_cases += n; res.evaluations += n
    for e in errs:
        res.violation("corr", "correspondence shard failed: " + e, {"check": "CorrCons.check_build", "error": e})
    for i in failing[:10]:
        (ast,) = cases[i][1]
        m = build(ast)
        bad = oracle_formula(res, ast, m)
        if bad:
            res.violation("oracle", f"{m!r}: {bad['problem']}", bad)
        res.violation("corr", f"constructor model differs from implementation for {json.dumps(ast_json(ast))[:300]}: implementation built {canon(m)}",
                      {"check": "CorrCons.check_build", "model": ast_json(ast), "failing_input_found": bool(bad)})

def replay(payload):
    r = payload.get("replay", payload)
    m = build(r["model"])
    if "env" in r:
        got = m.evaluate(dict(r["env"])).as_tuple(); want = ast_sem(r["model"], r["env"])
        print("model", m, "env", r["env"], "evaluates to", got, "documented truth function", want)
        return 0 if got == (want, want) else 1
    class R: evaluations = 0
    bad = oracle_formula(R, r["model"], m)
    print("model", m, "->", "FAILS: " + bad["problem"] if bad else "holds")
    return 1 if bad else 0
