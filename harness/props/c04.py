"""C04 — connectives have their documented truth functions."""
import random, json, itertools
import puan, puan.logic.plog as pg
from common import *
from plogio import *

RULE = ("constructor trees over a boolean leaf alphabet (All, Any, AtLeast with default and explicit sign, AtMost, Xor, XNor, Imply, Not; nested to "
        "depth 0-3, explicit and generated ids, str and puan.variable leaves), built through the Python constructors; ALL 0/1 assignments of "
        "the leaves are enumerated for every formula; thorough additionally enumerates every formula of a small grammar exhaustively; non-trivial "
        "= nesting depth >= 2 with a negating connective (Not/Imply/XNor) over a child list that mixes atoms and sub-propositions; distinct by canonical text. "
        "Every formula is additionally built through the JSON constructor (from_json of a hand-written document) and checked against the same truth function. "
        "Correspondence: the constructor model Cons.build (Coq) must produce exactly the structure the Python constructors produce (ids through the id oracle)")

NEGATING = ("Not", "Imply", "XNor")
def has_neg_over_mixed(ast):
    def mixed(a):
        ch = a.get("ch", [])
        na = sum(1 for c in ch if c["k"] in ("str", "var"))
        return 0 < na < len(ch)
    def go(a, under_neg):
        if a["k"] in ("str", "var"):
            return False
        if under_neg and mixed(a):
            return True
        return any(go(c, under_neg or a["k"] in NEGATING) for c in a.get("ch", []))
    return go(ast, False)

@guarded(lambda e, res, ast, m, *a, **k: {"op": "truth-function", "model": ast_json(ast), "env": {}, "required": None, "observed": None,
                                           "problem": f"evaluate raised {type(e).__name__}: {str(e)[:160]}"})
def oracle_formula(res, ast, m):
    def ast_ids(a):
        return [a["id"]] if a["k"] in ("str", "var") else [i for c in a.get("ch", []) for i in ast_ids(c)]
    ids = sorted({l.id for l in leaves_of(m)} | set(ast_ids(ast)))     # the atoms the formula was WRITTEN over, even if the model lost some
    # every other formula (decided by the data, so that a replay does the same) walks its truth table with ONE dictionary
    # object that is updated in place between the calls, as an application that flips one option at a time does
    inplace = sum(map(ord, json.dumps(ast_json(ast), sort_keys=True))) % 2 == 0
    shared = {}
    for vals in itertools.product([0, 1], repeat=len(ids)):
        env = dict(zip(ids, vals))
        res.evaluations += 1
        want = ast_sem(ast, env)
        if inplace:
            shared.update(env); arg = shared
        else:
            arg = dict(env)
        got = m.evaluate(arg).as_tuple()
        if got != (want, want):
            return {"op": "truth-function", "model": ast_json(ast), "env": env, "required": want, "observed": list(got), "inplace": inplace,
                    "problem": f"evaluates to {got} at {env}, documented truth function gives {want}" + (" (the rows of the truth table asked in order on one model object with one dictionary updated in place)" if inplace else "")}
    return None

def small_grammar(depth, leaves):
    """all formulas of a small grammar (used exhaustively in the thorough tier)"""
    L = [{"k": "str", "id": x} for x in leaves]
    if depth == 0:
        return L
    sub = small_grammar(depth - 1, leaves)
    out = list(L)
    pairs = [(a, b) for a in sub for b in sub if a is not b and json.dumps(ast_json(a)) < json.dumps(ast_json(b))]
    for a, b in pairs:
        for k in ("All", "Any", "Xor", "XNor"):
            out.append({"k": k, "ch": [a, b], "id": None})
        out.append({"k": "Imply", "ch": [a, b], "id": None}); out.append({"k": "Imply", "ch": [b, a], "id": None})
        out.append({"k": "AtMost", "v": 1, "ch": [a, b], "id": None})
    for a in sub:
        out.append({"k": "Not", "ch": [a], "id": None})
    return out

# ---- rule dictionaries (Imply.from_cicJE)
RULES = ["REQUIRES_ALL", "REQUIRES_ANY", "ONE_OR_NONE", "FORBIDS_ALL", "REQUIRES_EXCLUSIVELY"]
def gen_cic(rng):
    items = list("abcdefg")
    def comps(kmin=1, kmax=3):
        return [{"id": x} for x in rng.sample(items, rng.randint(kmin, kmax))]
    cnt = [0]
    def oid():
        cnt[0] += 1
        return f"K{cnt[0]}" if rng.random() < 0.5 else None
    d = {"consequence": {"ruleType": rng.choice(RULES), "components": comps(1, 4)}}
    i = oid()
    if i: d["consequence"]["id"] = i
    i = oid()
    if i: d["id"] = i
    if rng.random() < 0.8:
        subs = []
        for _ in range(rng.choice([0, 1, 1, 2, 3])):
            sc = {"components": comps()}
            if rng.random() < 0.7: sc["relation"] = rng.choice(["ALL", "ANY"])
            i = oid()
            if i: sc["id"] = i
            subs.append(sc)
        d["condition"] = {"subConditions": subs}
        if rng.random() < 0.7: d["condition"]["relation"] = rng.choice(["ALL", "ANY"])
        i = oid()
        if i: d["condition"]["id"] = i
    return d

def cic_sem(d, env):
    """documented meaning of a rule dictionary over 0/1 items"""
    c = d["consequence"]; vals = [env[x["id"]] for x in c["components"]]; n = sum(vals)
    cons = {"REQUIRES_ALL": n == len(vals), "REQUIRES_ANY": n >= 1, "ONE_OR_NONE": n <= 1, "FORBIDS_ALL": n == 0, "REQUIRES_EXCLUSIVELY": n == 1}[c["ruleType"]]
    subs = d.get("condition", {}).get("subConditions", []) if "condition" in d else []
    if not subs:
        return int(cons)
    def rel(x, vs):
        return all(vs) if x.get("relation", "ALL") == "ALL" else any(vs)
    inner = [rel(s_, [env[x["id"]] for x in s_["components"]]) for s_ in subs]
    cond = inner[0] if len(inner) == 1 else rel(d["condition"], inner)
    return int((not cond) or cons)

def cic_term(d, it):
    def o(x): return opt(x, it.s)
    def ids(cs): return lst(it.s(c["id"]) for c in cs)
    cond = d.get("condition")
    subs = cond.get("subConditions", []) if cond else []
    return (f"(mkCic {o(d.get('id'))} {b(cond is not None)} {b((cond or {}).get('relation', 'ALL') == 'ALL')} {o((cond or {}).get('id'))} "
            f"{lst(f'(mkSub {b(s_.get(chr(114)+chr(101)+chr(108)+chr(97)+chr(116)+chr(105)+chr(111)+chr(110), chr(65)+chr(76)+chr(76)) == chr(65)+chr(76)+chr(76))} {ids(s_[chr(99)+chr(111)+chr(109)+chr(112)+chr(111)+chr(110)+chr(101)+chr(110)+chr(116)+chr(115)])} {o(s_.get(chr(105)+chr(100)))})' for s_ in subs)} "
            f"{d['consequence']['ruleType']} {ids(d['consequence']['components'])} {o(d['consequence'].get('id'))})")

def run_cic(res, tier, rng):
    n = 200 if tier == "quick" else 2500
    cases = []
    for _ in range(n):
        d = gen_cic(rng)
        orc = IdOracle()
        try:
            with orc:
                m = pg.Imply.from_cicJE(json.loads(json.dumps(d)))
        except Exception as e:
            res.count("cic_build_error:" + type(e).__name__); continue
        if is_var(m) or m.errors():
            res.count("cic_skipped_invalid"); continue
        res.count("cic_" + d["consequence"]["ruleType"]); res.count("cic_subconditions_%d" % len(d.get("condition", {}).get("subConditions", [])))
        if len(d.get("condition", {}).get("subConditions", [])) >= 2:
            res.nt("cic" + json.dumps(d, sort_keys=True))
        lv = leaves_of(m)
        for vals in itertools.product([0, 1], repeat=len(lv)):
            env = {l.id: v for l, v in zip(lv, vals)}
            full = {x: env.get(x, 0) for x in "abcdefg"}
            res.evaluations += 1
            want = cic_sem(d, full); got = m.evaluate(dict(env)).as_tuple()
            if got != (want, want):
                res.violation("oracle", f"from_cicJE({json.dumps(d)}) = {m!r} evaluates to {got} at {env}, the rule means {want}",
                              {"op": "cic", "rule": d, "env": env, "required": want, "observed": list(got)})
                break
        cases.append((lambda it, d=d, m=m, orc=orc: f"({orc.term(it)}, {cic_term(d, it)}, {dump(m, it)})", (d,)))
        res.sample({"rule": d, "model": repr(m)}, cap=8)
    n1, failing, errs = run_case_shards("C04", "cic", "", "idtable * cic * prop", "check_cic", cases, imports="Puan.Plog Puan.Sem Puan.Corr Puan.Cons Puan.Cic Puan.CorrCons")
    res.corr_cases += n1; res.evaluations += n1
    for e in errs:
        res.violation("corr", "correspondence shard failed: " + e, {"check": "CorrCons.check_cic", "error": e})
    for i in failing[:10]:
        (d,) = cases[i][1]
        res.violation("corr", f"rule-dictionary model differs from implementation for {json.dumps(d)}: implementation built {canon(pg.Imply.from_cicJE(d))}",
                      {"check": "CorrCons.check_cic", "rule": d, "failing_input_found": False})

def doc_of_ast(ast):
    """the JSON document a user would write for a constructor tree (independent of to_json)"""
    k = ast["k"]
    # the documented spellings are chosen from the data: a variable may carry "type": "Variable" / "Proposition" or none, an AtLeast
    # may leave its "type" out (a document with "propositions" and no type is an AtLeast)
    if k == "str":
        return dict({"id": ast["id"]}, **({"type": ["Variable", "Proposition"][len(str(ast["id"])) % 2]} if sum(map(ord, str(ast["id"]))) % 3 == 0 else {}))
    if k == "var":
        d = {"id": ast["id"]}
        if list(ast["b"]) != [0, 1]:
            d["bounds"] = {"lower": ast["b"][0], "upper": ast["b"][1]}
        return d
    ch = [doc_of_ast(c) for c in ast.get("ch", [])]
    if k == "Imply":
        d = {"type": "Imply", "condition": ch[0], "consequence": ch[1]}
    elif k == "Not":
        return {"type": "Not", "proposition": ch[0]}
    elif k == "AtLeast":
        d = {"type": "AtLeast", "propositions": ch, "value": ast["v"]}
        if ast.get("s") is not None:
            d["sign"] = ast["s"]
        if (ast["v"] + len(ch)) % 2 == 0:
            del d["type"]
    elif k == "AtMost":
        d = {"type": "AtMost", "propositions": ch, "value": ast["v"]}
    else:
        d = {"type": k, "propositions": ch}
    if ast.get("id") is not None:
        d["id"] = ast["id"]
    return d

def oracle_json(res, ast):
    """the JSON constructor route: from_json(document) must have the documented truth function too"""
    if any(x.get("vb") for x in [ast]):
        return None
    try:
        m = pg.from_json(json.loads(json.dumps(doc_of_ast(ast))))
    except Exception as e:
        return {"op": "json-constructor", "model": ast_json(ast), "problem": f"from_json raised {type(e).__name__}: {e}"}
    if isinstance(m, str) or is_var(m) or m.errors():
        return None
    def ast_ids(a):
        return [a["id"]] if a["k"] in ("str", "var") else [i for c in a.get("ch", []) for i in ast_ids(c)]
    ids = sorted({l.id for l in leaves_of(m)} | set(ast_ids(ast)))     # the atoms the formula was WRITTEN over, even if the model lost some
    for vals in itertools.product([0, 1], repeat=len(ids)):
        env = dict(zip(ids, vals))
        res.evaluations += 1
        want = ast_sem(ast, env); got = m.evaluate(dict(env)).as_tuple()
        if got != (want, want):
            return {"op": "json-constructor", "model": ast_json(ast), "env": env, "required": want, "observed": list(got),
                    "problem": f"from_json({json.dumps(doc_of_ast(ast))[:300]}) evaluates to {got} at {env}, documented truth function gives {want}"}
    return None

def mixed_formula(rng):
    """a negating connective over a node that mixes >= 2 atoms with >= 1 sub-proposition (all thresholds)"""
    items = list("abcdefg")
    def leaf(x): return {"k": "str", "id": x} if rng.random() < 0.6 else {"k": "var", "id": x, "b": [0, 1]}
    def small():
        k = rng.choice(["All", "Any", "AtLeast", "AtMost", "Xor"])
        ch = [leaf(x) for x in rng.sample(items, rng.randint(1, 3))]
        r = {"k": k, "ch": ch, "id": None}
        if k in ("AtLeast", "AtMost"): r["v"] = rng.randint(1, 2)
        if k == "AtLeast": r["s"] = None
        return r
    na, nc = rng.randint(2, 4), rng.randint(1, 2)
    ch = [leaf(x) for x in rng.sample(items, na)] + [small() for _ in range(nc)]
    rng.shuffle(ch)
    k = rng.choice(["AtLeast", "AtLeast", "All", "Any", "AtMost"])
    inner = {"k": k, "ch": ch, "id": rng.choice([None, "M"])}
    if k in ("AtLeast", "AtMost"): inner["v"] = rng.randint(1, na + nc)
    if k == "AtLeast": inner["s"] = rng.choice([None, None, 1])
    w = rng.choice(["Not", "ImplyC", "ImplyQ", "XNor", "NotNot", "Xor"])
    other = leaf(rng.choice(items))
    if w == "Not": return {"k": "Not", "ch": [inner], "id": None}
    if w == "NotNot": return {"k": "Not", "ch": [{"k": "Not", "ch": [inner], "id": None}], "id": None}
    if w == "ImplyC": return {"k": "Imply", "ch": [inner, other], "id": None}
    if w == "ImplyQ": return {"k": "Imply", "ch": [other, {"k": "Not", "ch": [inner], "id": None}], "id": None}
    if w == "XNor": return {"k": "XNor", "ch": [inner, other], "id": None}
    return {"k": "Not", "ch": [{"k": "Xor", "ch": [inner, other], "id": None}], "id": None}

def collision_formula(rng):
    """operands that share an id or are listed twice: a named sub-formula next to its own negation (Not keeps the name), the same
    operand twice, unnamed siblings whose leaf ids concatenate to the same string (equal generated ids) - none of this is
    excluded by the property"""
    items = list("abcdef")
    def leaf(x): return {"k": "str", "id": x}
    def named(i):
        k = rng.choice(["Any", "All", "AtLeast"])
        r = {"k": k, "ch": [leaf(x) for x in rng.sample(items, rng.randint(1, 3))], "id": i}
        if k == "AtLeast": r["v"] = rng.randint(1, 2); r["s"] = None
        return r
    pat = rng.choice(["neg-twin", "neg-twin", "twice-leaf", "twice-compound", "concat-siblings"])
    if pat == "neg-twin":
        P = named(rng.choice(["P", "q1"]))
        ch = [P, {"k": "Not", "ch": [json.loads(json.dumps(P))], "id": None}] + [leaf(x) for x in rng.sample(items, rng.randint(0, 2))]
    elif pat == "twice-leaf":
        xs = rng.sample(items, rng.randint(2, 3))
        ch = [leaf(x) for x in xs] + [leaf(xs[0])]
    elif pat == "twice-compound":
        P = named(rng.choice(["P", None]))
        ch = [P, json.loads(json.dumps(P))] + [leaf(x) for x in rng.sample(items, rng.randint(0, 2))]
    else:
        k2 = rng.choice(["All", "Any"])
        ch = [{"k": k2, "ch": [leaf("ab"), leaf("c")], "id": None}, {"k": k2, "ch": [leaf("a"), leaf("bc")], "id": None}] + [leaf(x) for x in rng.sample(["d", "e"], rng.randint(0, 1))]
    rng.shuffle(ch)
    k = rng.choice(["All", "All", "Any", "Xor", "XNor", "AtLeast", "AtMost"])
    top = {"k": k, "ch": ch, "id": rng.choice([None, "T"])}
    if k in ("AtLeast", "AtMost"): top["v"] = rng.randint(1, len(ch))
    if k == "AtLeast": top["s"] = None
    w = rng.random()
    if w < 0.25: return {"k": "Not", "ch": [top], "id": None}
    if w < 0.45: return {"k": "Imply", "ch": [leaf("g"), top], "id": None}
    return top

def run(res, tier, seed):
    rng = random.Random(seed * 1000003 + 4)
    res.rule = RULE
    n_models = 800 if tier == "quick" else 6000
    cases, seen = [], 0
    tries = 0
    asts = []
    while len(asts) < n_models and tries < n_models * 6:
        tries += 1
        kinds = None if tries % 2 else ["Not", "Imply", "XNor", "All", "Any", "AtLeast", "Xor", "Not", "Imply"]
        g = ModelGen(random.Random(rng.getrandbits(64)), int_leaves=0.0, big=0.0, share=0.1, kinds=kinds)
        ast = g.prop(rng.randint(0, 3) if tries % 2 else rng.randint(2, 3))
        if ast["k"] == "AtLeast" and False:
            continue
        asts.append(ast)
    for _ in range(250 if tier == "quick" else 3000):
        asts.append(mixed_formula(rng))
    for _ in range(120 if tier == "quick" else 1500):
        asts.append(collision_formula(rng)); res.count("collision_formulas")
    for _ in range(120 if tier == "quick" else 1500):
        # the configurator's Any / Xor (subclasses of the plog ones, with a `default` that must not change the truth function),
        # alone and under a plog connective
        cg = ConfigGen(random.Random(rng.getrandbits(64)))
        cg.amount = {}                      # C04 is about boolean leaves
        if rng.random() < 0.4:
            # the default names one of the alternatives that is a sub-proposition (by its id)
            its = rng.sample(cg.items, min(len(cg.items), 4))
            B = {"k": rng.choice(["All", "Any", "Xor"]), "ch": [cg.leaf(i) for i in its[1:3]], "id": rng.choice(["B", "pk1"])}
            alts = [cg.leaf(its[0]), B] + ([cg.leaf(its[3])] if len(its) > 3 and rng.random() < 0.5 else [])
            rng.shuffle(alts)
            a = {"k": rng.choice(["CcAny", "CcXor"]), "ch": alts, "default": [B["id"]], "id": rng.choice([None, "R1"])}
        else:
            a = cg.simple()
        if a["k"] not in ("CcAny", "CcXor"):
            continue
        if rng.random() < 0.4:
            a = {"k": rng.choice(["Not", "Imply", "All"]), "ch": [a] if rng.random() < 0.5 else [a, cg.leaf(rng.choice(cg.items))], "id": None}
            if a["k"] == "Not": a["ch"] = a["ch"][:1]
            if a["k"] == "Imply" and len(a["ch"]) < 2: a["ch"].append(cg.leaf(rng.choice(cg.items)))
        asts.append(a); res.count("configurator_choice_formulas")
    if tier != "quick":
        gram = small_grammar(2, ["a", "b", "c"])
        rng.shuffle(gram)
        asts.extend(gram[:6000]); res.count("small_grammar_formulas", min(len(gram), 6000))
        res.notes.append(f"small grammar: {len(gram)} formulas of depth <= 2 over 3 leaves, {min(len(gram), 6000)} used, all 2^3 assignments each")
    for ast in asts:
        orc = IdOracle()
        try:
            with orc:
                m = build(ast)
        except Exception as e:
            res.count("build_error:" + type(e).__name__); continue
        if isinstance(m, str) or is_var(m):
            continue
        if m.errors():
            # the property speaks of every formula, validated or not: the truth table of an expression whose ids collide
            # (a named operand next to its own negation, generated ids of look-alike siblings) is checked all the same;
            # only the JSON route and the structural correspondence are left to the validated ones
            res.count("not_validated_truth_table_only")
            bad = oracle_formula(res, ast, m)
            if bad:
                res.violation("oracle", f"{m!r} built from {json.dumps(ast_json(ast))[:300]}: {bad['problem']}", bad)
            continue
        res.count("kind_" + ast["k"]); res.count("depth_%d" % ast_depth(ast))
        if ast_depth(ast) >= 2 and has_neg_over_mixed(ast):
            res.nt(canon(m)); res.count("negating_over_mixed")
        bad = oracle_formula(res, ast, m)
        if bad:
            res.violation("oracle", f"{m!r} built from {json.dumps(ast_json(ast))[:300]}: {bad['problem']}", bad)
        if not any("vb" in a for a in [ast]) and "Cc" not in json.dumps(ast_json(ast)):
            badj = oracle_json(res, ast)
            res.count("json_constructor_route")
            if badj:
                res.violation("oracle", badj["problem"], badj)
        cases.append((lambda it, ast=ast, m=m, orc=orc: f"({orc.term(it)}, {form_term(ast, it)}, {dump(m, it)})", (ast,)))
        res.sample({"formula": json.dumps(ast_json(ast))[:400], "model": repr(m)})
    n, failing, errs = run_case_shards("C04", "build", "", "idtable * form * prop", "check_build", cases, imports="Puan.Plog Puan.Sem Puan.Corr Puan.Cons Puan.CorrCons")
    res.corr_cases += n; res.evaluations += n
    for e in errs:
        res.violation("corr", "correspondence shard failed: " + e, {"check": "CorrCons.check_build", "error": e})
    run_cic(res, tier, rng)
    for i in failing[:10]:
        (ast,) = cases[i][1]
        m = build(ast)
        bad = oracle_formula(res, ast, m)
        if bad:
            res.violation("oracle", f"{m!r}: {bad['problem']}", bad)
        res.violation("corr", f"constructor model differs from implementation for {json.dumps(ast_json(ast))[:300]}: implementation built {canon(m)}",
                      {"check": "CorrCons.check_build", "model": ast_json(ast), "failing_input_found": bool(bad)})

def replay(payload):
    r = payload.get("replay", payload)
    if r.get("op") == "json-constructor":
        class R: evaluations = 0
        badj = oracle_json(R, r["model"])
        print("document", json.dumps(doc_of_ast(r["model"]))[:400], "->", "FAILS: " + badj["problem"] if badj else "holds")
        return 1 if badj else 0
    if r.get("op") == "cic":
        m = pg.Imply.from_cicJE(r["rule"]); full = {x: r["env"].get(x, 0) for x in "abcdefg"}
        got = m.evaluate(dict(r["env"])).as_tuple(); want = cic_sem(r["rule"], full)
        print("rule", r["rule"], "model", m, "env", r["env"], "evaluates to", got, "rule means", want)
        return 0 if got == (want, want) else 1
    m = build(r["model"])
    if "env" in r and not r.get("inplace"):
        got = m.evaluate(dict(r["env"])).as_tuple(); want = ast_sem(r["model"], r["env"])
        print("model", m, "env", r["env"], "evaluates to", got, "documented truth function", want)
        return 0 if got == (want, want) else 1
    class R: evaluations = 0
    bad = oracle_formula(R, r["model"], m)
    print("model", m, "->", "FAILS: " + bad["problem"] if bad else "holds")
    return 1 if bad else 0
