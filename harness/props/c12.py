"""C12 — tighten_column_bounds never cuts off a feasible point, reports lb > ub only for empty
systems, never widens; row_bounds are the exact min / max over the box; n_row_combinations match
a direct enumeration.  (A, b, column_bounds, A_max, A_min are compared too.)"""
import random, json, itertools
import numpy as np
import puan, puan.ndarray as pnd
from common import *
from polyio import *

RULE = ("random small integer systems (1-4 rows, 1-4 columns; profiles bool / big-M / mixed / forcing / infeasible / zero rows+columns / "
        "int16-wide bounds; coefficients up to |7| resp. 40000 in the wide profile; bounds boolean, negative, degenerate); "
        "non-trivial = some entry with |a_ij| > 1 whose tightening quotient (b_i - sum of the other columns' maxima) / a_ij is not integral; "
        "distinct by canonical text of (matrix, bounds)")

ENUM_CAP = 4000

def observe(P):
    """every method C12 lists, as plain Python data (None = raised)"""
    o = {}
    o["A"] = np.asarray(P.A).tolist()
    o["b"] = np.asarray(P.b).tolist()
    cb = np.asarray(P.column_bounds()).tolist()
    o["lo"], o["hi"] = (cb[0], cb[1]) if len(cb) == 2 else ([], [])
    o["A_max"] = np.asarray(P.A_max).tolist()
    o["A_min"] = np.asarray(P.A_min).tolist()
    o["row_bounds"] = [tuple(int(v) for v in r) for r in np.asarray(P.row_bounds()).tolist()]
    o["ncomb"] = [int(v) for v in np.asarray(P.n_row_combinations).tolist()]
    try:
        t = np.asarray(P.tighten_column_bounds())
        o["tcb"] = ([int(v) for v in t[0].tolist()], [int(v) for v in t[1].tolist()])
    except Exception as e:
        o["tcb"] = None
        o["tcb_exc"] = f"{type(e).__name__}: {e}"
    # the same queries again on the SAME object, after tighten_column_bounds() has run: the reported bounds are
    # functions of the declared box, not of what was asked before
    again = {}
    try:
        # ... nor of what happens to ANOTHER polyhedron: one built from this one's `variables` array (handing it on is the
        # obvious way to build a second system over the same columns) gets other bounds written into ITS variables
        if len(P.variables) > 1:
            Q = pnd.ge_polyhedron(np.asarray(P).copy(), variables=P.variables, index=P.index)
            for k in range(1, len(Q.variables)):
                vb = Q.variables[k].bounds.as_tuple()
                Q.variables[k] = puan.variable(Q.variables[k].id, (int(vb[0]), int(vb[1]) + 3))
        cb = np.asarray(P.column_bounds()).tolist()
        again["lo"], again["hi"] = (cb[0], cb[1]) if len(cb) == 2 else ([], [])
        again["row_bounds"] = [tuple(int(v) for v in r) for r in np.asarray(P.row_bounds()).tolist()]
        again["ncomb"] = [int(v) for v in np.asarray(P.n_row_combinations).tolist()]
        again["var_bounds"] = [tuple(int(x) for x in v.bounds.as_tuple()) for v in P.A.variables]
        if o["tcb"] is not None:
            t = np.asarray(P.tighten_column_bounds())
            again["tcb"] = ([int(v) for v in t[0].tolist()], [int(v) for v in t[1].tolist()])
    except Exception as e:
        again["exc"] = f"{type(e).__name__}: {e}"
    o["again"] = again
    return o

def obs_term(o):
    tcb = "None" if o["tcb"] is None else f"(Some ({zl(o['tcb'][0])}, {zl(o['tcb'][1])}))"
    return (f"(Obs12 {zll(o['A'])} {zl(o['b'])} {zl(o['lo'])} {zl(o['hi'])} {zll(o['A_max'])} {zll(o['A_min'])} "
            f"{zpl(o['row_bounds'])} {zl(o['ncomb'])} {tcb})")

def quotient_rounds(M, bnds):
    """independent look at the tightening quotients: is there a non-unit coefficient with a remainder?"""
    for r in M:
        mx = [max(c * lo, c * hi) for c, (lo, hi) in zip(r[1:], bnds)]
        tot = sum(mx)
        for j, c in enumerate(r[1:]):
            if abs(c) > 1 and (r[0] - (tot - mx[j])) % c != 0:
                return True
    return False

def corner_points(bnds, rng=None, cap=64):
    cs = list(itertools.islice(itertools.product(*[(lo, hi) if lo != hi else (lo,) for lo, hi in bnds]), cap))
    return [list(c) for c in cs]

def oracle_system(M, bnds, o=None, points=None, rng=None):
    """The property statement executed against the implementation. Returns a list of
    (description, payload) failures (empty = holds on this system)."""
    fails = []
    def fail(what, desc, **kw):
        fails.append((f"{what}: {desc}; matrix {M} bounds {bnds}", dict(op=what, M=M, bnds=[list(x) for x in bnds], **kw)))
    if o is None:
        try:
            o = observe(mk_poly(M, bnds, narrow=True))
        except Exception as e:
            fail("observe", f"raised {type(e).__name__}: {e}")
            return fails, 0, 0
    n = len(bnds)
    small = box_size(bnds) <= ENUM_CAP
    ag = o.get("again")
    if ag is not None:
        for k in ("lo", "hi", "row_bounds", "ncomb", "tcb"):
            if k in ag and ag[k] != o[k]:
                fail("history", f"{k} changed after tighten_column_bounds() was called on the same polyhedron (and a second polyhedron built from its variables array was given other bounds): first {o[k]}, then {ag[k]}")
                break
        if "exc" in ag:
            fail("history", f"re-querying the polyhedron after tighten_column_bounds() raised {ag['exc']}")
        if "var_bounds" in ag and ag["var_bounds"] != [tuple(x) for x in bnds]:
            fail("history", f"declared variable bounds changed after tighten_column_bounds(): {ag['var_bounds']}")
    # A / b / column_bounds / A_max / A_min by their meaning
    if o["A"] != [r[1:] for r in M] or o["b"] != [r[0] for r in M]:
        fail("A_b", f"A/b split wrong: {o['A']} {o['b']}")
    if (o["lo"], o["hi"]) != ([lo for lo, _ in bnds], [hi for _, hi in bnds]):
        fail("column_bounds", f"column_bounds {o['lo']} {o['hi']}")
    if o["A_max"] != [[max(c * lo, c * hi) for c, (lo, hi) in zip(r[1:], bnds)] for r in M]:
        fail("A_max", f"A_max {o['A_max']} is not the entrywise maximum over the bounds")
    if o["A_min"] != [[min(c * lo, c * hi) for c, (lo, hi) in zip(r[1:], bnds)] for r in M]:
        fail("A_min", f"A_min {o['A_min']} is not the entrywise minimum over the bounds")
    # candidate points
    if small:
        pts = [list(p) for p in box_points(bnds)]
    else:
        rng = rng or random.Random(0)
        pts = corner_points(bnds)
        for _ in range(300):
            pts.append([rng.choice([lo, hi, rng.randint(lo, hi)]) for lo, hi in bnds])
        # points pushed towards feasibility: start from a corner maximising each row
        for r in M:
            pts.append([hi if c > 0 else lo for c, (lo, hi) in zip(r[1:], bnds)])
    if points:
        pts = [list(p) for p in points] + pts
    # row bounds
    if len(o["row_bounds"]) != len(M):
        fail("row_bounds", f"row_bounds has {len(o['row_bounds'])} entries for {len(M)} rows")
    else:
        ref_pts = pts if small else corner_points(bnds, cap=1 << 12)
        for i, r in enumerate(M):
            if n > 12:       # too many corners to list: the extremes of a linear form over a box, term by term
                want = (sum(min(c * lo, c * hi) for c, (lo, hi) in zip(r[1:], bnds)) - r[0], sum(max(c * lo, c * hi) for c, (lo, hi) in zip(r[1:], bnds)) - r[0])
            else:
                vals = [lhs(r, p) - r[0] for p in ref_pts]
                want = (min(vals), max(vals))
            if tuple(o["row_bounds"][i]) != want:
                fail("row_bounds", f"row {i}: row_bounds {o['row_bounds'][i]}, enumerated min/max {want}", row=i)
                break
    # combination counts
    if small:
        for i, r in enumerate(M):
            nz = [j for j, c in enumerate(r[1:]) if c != 0]
            cnt = len({tuple(p[j] for j in nz) for p in pts})
            if i >= len(o["ncomb"]) or o["ncomb"][i] != cnt:
                fail("n_row_combinations", f"row {i}: n_row_combinations {o['ncomb']}, enumerated {cnt}", row=i)
                break
    else:
        want = [int(np.prod([(hi - lo + 1) if c != 0 else 1 for c, (lo, hi) in zip(r[1:], bnds)], dtype=object)) for r in M]
        if o["ncomb"] != want:
            fail("n_row_combinations", f"n_row_combinations {o['ncomb']}, expected {want}")
    # tightening
    if o["tcb"] is None:
        fail("tighten", f"tighten_column_bounds raised {o.get('tcb_exc')}")
        return fails, len(pts), 0
    lb, ub = o["tcb"]
    if len(lb) != n or len(ub) != n:
        fail("tighten", f"tightened bounds have the wrong shape: {lb} {ub}")
        return fails, len(pts), 0
    for j, (lo, hi) in enumerate(bnds):
        if lb[j] < lo or ub[j] > hi:
            fail("tighten-widen", f"column {j}: declared ({lo},{hi}) widened to ({lb[j]},{ub[j]})", column=j)
            break
    sols = [p for p in pts if all(row_ok(r, p) for r in M)]
    for p in sols:
        bad = [j for j in range(n) if not (lb[j] <= p[j] <= ub[j])]
        if bad:
            fail("tighten-cut", f"solution {p} lies outside the tightened bounds {lb} {ub} (column {bad[0]})", point=p)
            break
    if any(l > u for l, u in zip(lb, ub)) and sols:
        fail("tighten-empty", f"lb > ub reported ({lb} {ub}) although {sols[0]} is a solution", point=sols[0])
    return fails, len(pts), len(sols)

def run_oracle(res, M, bnds, o=None, points=None, rng=None):
    fails, npts, nsol = oracle_system(M, bnds, o, points, rng)
    res.evaluations += 1 + npts
    for desc, payload in fails[:2]:
        res.violation("oracle", desc, payload)
    return not fails, nsol

def mutate(rng, M, bnds):
    M = [list(r) for r in M]; bnds = [tuple(x) for x in bnds]
    k = rng.random()
    if k < 0.5:
        i = rng.randrange(len(M)); j = rng.randrange(len(M[0]))
        M[i][j] += rng.choice([-2, -1, 1, 2])
    elif k < 0.8:
        j = rng.randrange(len(bnds)); lo, hi = bnds[j]
        lo += rng.choice([-1, 0, 1]); hi += rng.choice([-1, 0, 1])
        bnds[j] = (max(MIN_INT, min(lo, hi)), min(MAX_INT, max(lo, hi)))
    else:
        i = rng.randrange(len(M)); f = rng.choice([-1, 2, 3])
        M[i] = [f * c for c in M[i]]
    return M, bnds

D11_DESC = "n_row_combinations wraps int64 when a row's combination count >= 2^63 (e.g. four (-32768,32767) columns -> 0)"

def d11_stream(res, rng, n_random):
    """Dedicated stream INSIDE known finding D11: rows whose true combination count is >= 2^63 with
    bounds inside the default int16 range.  A mismatch there is the known finding; a mismatch on a
    row whose true count is < 2^63 stays a violation."""
    full = (MIN_INT, MAX_INT)
    systems = [([[0, 1, 1, 1, 1]], [full] * 4),
               ([[0, 1, 1, 1, 1]], [full] * 3 + [(0, MAX_INT)])]
    for _ in range(n_random):
        n = rng.randint(4, 5)
        bnds = [full if rng.random() < 0.7 else (rng.randint(MIN_INT, -20000), rng.randint(20000, MAX_INT)) for _ in range(n)]
        rows = [[rng.randint(-5, 5)] + [rng.choice([1, -1, 2, -3, 7]) for _ in range(n)] for _ in range(rng.randint(1, 2))]
        if rng.random() < 0.5:      # a second row that stays below the limit
            rows.append([0] + [rng.choice([1, -2]) if j < 2 else 0 for j in range(n)])
        systems.append((rows, bnds))
    for M, bnds in systems:
        res.evaluations += 1
        try:
            got = [int(v) for v in np.asarray(mk_poly(M, bnds, narrow=True).n_row_combinations).tolist()]
        except Exception as e:
            res.violation("oracle", f"n_row_combinations raised {type(e).__name__}: {e}; matrix {M} bounds {bnds}",
                          {"op": "n_row_combinations", "M": M, "bnds": [list(x) for x in bnds]})
            continue
        for i, r in enumerate(M):
            true = 1
            for c, (lo, hi) in zip(r[1:], bnds):
                if c != 0:
                    true *= (hi - lo + 1)
            if got[i] == true:
                continue
            if true >= 2 ** 63:
                res.count("d11_int64_wrap_witnessed")
                res.known_finding("D11", D11_DESC)
            else:
                res.violation("oracle", f"n_row_combinations: row {i} reports {got[i]}, exact count {true}; matrix {M} bounds {bnds}",
                              {"op": "n_row_combinations", "M": M, "bnds": [list(x) for x in bnds], "row": i})

def run(res, tier, seed):
    rng = random.Random(seed * 1000003 + 12)
    res.rule = RULE
    res.notes.append("numeric range guard: the main streams keep every row's combination count below 2^62 (numpy int64); rows at or above 2^63 "
                     "are exercised only by the dedicated known-finding stream D11")
    d11_stream(res, random.Random(seed * 7919 + 1211), 6 if tier == "quick" else 60)
    n_cases = 600 if tier == "quick" else 9000
    cases = []
    stream = [(M, [tuple(x) for x in bnds], "fixed") for M, bnds in FIXED_SYSTEMS]
    while len(stream) < n_cases:
        stream.append(gen_system(rng))
    for M, bnds, prof in stream:
        try:
            o = observe(mk_poly(M, bnds, narrow=True))
        except Exception as e:
            res.violation("oracle", f"a C12 method raised {type(e).__name__}: {e} on matrix {M} bounds {bnds}",
                          {"op": "observe", "M": M, "bnds": [list(x) for x in bnds]})
            continue
        res.count("profile_" + prof)
        key = json.dumps([M, bnds])
        if quotient_rounds(M, bnds):
            res.nt(key); res.count("quotient_with_remainder")
        if any(abs(c) > 1 for r in M for c in r[1:]):
            res.count("non_unit_coefficient")
        if any(lo < 0 for lo, _ in bnds):
            res.count("negative_lower_bound")
        if any(lo == hi for lo, hi in bnds):
            res.count("degenerate_bound")
        if any(all(c == 0 for c in r[1:]) for r in M):
            res.count("zero_row")
        if any(all(r[j + 1] == 0 for r in M) for j in range(len(bnds))):
            res.count("zero_column")
        if o["tcb"] and any(l > u for l, u in zip(*o["tcb"])):
            res.count("reports_lb_gt_ub")
        if o["tcb"] and (o["tcb"][0] != o["lo"] or o["tcb"][1] != o["hi"]):
            res.count("tightens_something")
        ok, nsol = run_oracle(res, M, bnds, o, rng=rng)
        if nsol == 0:
            res.count("infeasible_or_no_sampled_solution")
        elif o["tcb"] and (o["tcb"][0] != o["lo"] or o["tcb"][1] != o["hi"]):
            res.count("feasible_and_tightened")
        cases.append((f"({poly_term(M, bnds)}, {obs_term(o)})", (M, bnds, o)))
        res.sample({"matrix": M, "bounds": bnds, "tighten_column_bounds": o["tcb"], "row_bounds": o["row_bounds"], "n_row_combinations": o["ncomb"]})
    n, failing, errs = run_case_shards("C12", "bounds", "", "poly * obs12", "check_bounds", cases, imports="Puan.Poly Puan.CorrPoly")
    res.corr_cases += n
    res.evaluations += n
    for e in errs:
        res.violation("corr", "correspondence shard failed: " + e, {"check": "CorrPoly.check_bounds", "error": e})
    # extra oracle stream
    extra = 1200 if tier == "quick" else 15000
    for _ in range(extra):
        M, bnds, prof = gen_system(rng)
        run_oracle(res, M, bnds, rng=rng)
    for _ in range(12 if tier == "quick" else 120):
        # a wide-range column (the default integer range) under a coefficient beyond 2^16: products beyond 32 bits
        big = rng.choice([65537, 70000, 131072, 2 ** 20]) * rng.choice([1, 1, -1])
        nb = rng.randint(1, 2)
        Mw = [[rng.choice([1, 0, -5, 4178, big]), big] + [rng.choice([1, -1, 2]) for _ in range(nb)]]
        if rng.random() < 0.5:
            Mw.append([rng.choice([0, 1]), rng.choice([0, 1, -1])] + [rng.choice([1, 0, -1]) for _ in range(nb)])
        bw = [(-32768, 32767)] + [(0, 1)] * nb
        res.count("wide_column_big_coefficient")
        run_oracle(res, Mw, bw, rng=rng)
    for _ in range(8 if tier == "quick" else 80):
        M, bnds, x0 = gen_large_sparse_planted(rng)
        res.count("large_sparse_polyhedra")
        run_oracle(res, M, bnds, points=[x0], rng=rng)
    if tier != "quick":
        # exhaustive: every 1x1 and 1x2 system with b in -4..4, coefficients in -3..3, bounds from a fixed list
        blist = [(0, 1), (-2, 1), (1, 1), (0, 3)]
        for b0 in range(-4, 5):
            for a1 in range(-3, 4):
                for bd1 in blist:
                    run_oracle(res, [[b0, a1]], [bd1])
                    for a2 in range(-3, 4):
                        for bd2 in blist:
                            run_oracle(res, [[b0, a1, a2]], [bd1, bd2])
        res.exhaustive = True
        res.notes.append("exhaustive sub-domain: all single-row systems with 1-2 columns, b in -4..4, coefficients in -3..3, bounds in {(0,1),(-2,1),(1,1),(0,3)}")
    budget = 4000          # escalated search around the disagreeing cases (mutations of them + fresh systems)
    for i in failing[:6]:
        M, bnds, o = cases[i][1]
        ok, _ = run_oracle(res, M, bnds, o, rng=rng)
        found = not ok
        sub = random.Random(i)
        tries = 0
        while not found and tries < 1500 and budget > 0:
            tries += 1; budget -= 1
            M2, b2 = mutate(sub, M, bnds) if tries % 4 else gen_system(sub)[:2]
            ok, _ = run_oracle(res, M2, b2, rng=sub)
            found = not ok
        res.violation("corr", f"model of the bound computations differs from the implementation on matrix {M} bounds {bnds}: implementation returned {o}",
                      {"check": "CorrPoly.check_bounds", "M": M, "bnds": [list(x) for x in bnds], "implementation_output": o, "failing_input_found": found})

def replay(payload):
    r = payload.get("replay", payload)
    M, bnds = r["M"], [tuple(x) for x in r["bnds"]]
    fails = oracle_system(M, bnds, points=[r["point"]] if r.get("point") else None)[0]
    try:
        o = observe(mk_poly(M, bnds, narrow=True))
        print("matrix", M, "bounds", bnds, "tighten_column_bounds", o["tcb"], "row_bounds", o["row_bounds"], "n_row_combinations", o["ncomb"])
    except Exception as e:
        print("matrix", M, "bounds", bnds, "raised", type(e).__name__, e)
    for d, _ in fails:
        print("  FAILS:", d)
    return 1 if fails else 0
