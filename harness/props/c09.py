"""C09 — queries are pure; results are independent of the call history.

Streams (all from ONE random.Random derived from the seed):
  main  : histories (<= 12 calls over <= 3 objects, objects may share sub-proposition OBJECTS) whose
          dictionaries name leaves only  -> must be violation-free (guard of C09_pure_partial)
  d2    : the same, but dictionaries may name compound ids -> expected to hit finding D2
          (AtLeast.assume assigns self.variable).  A history dependence is reported as
          KNOWN-FINDING D2 only if it is explained by exactly that mechanism (see explained_by_d2);
          anything else is a VIOLATION.
  cfg   : families of look-alike configurators (same id, same equation bounds, same value; rules
          differing in a threshold -1/-2 or in leaf bounds with equal lower+upper ...) queried in
          random order -> each answer must equal the answer of a freshly built configurator
          (finding D3, fixed: the process-wide lru_cache must not come back).
Correspondence: every history is also run through Heap.step inside Coq; every output and the
per-object bounds after every call are compared (CorrHeap.check_history / check_history_pure /
check_cfg).  Direct oracle: every answer is compared with the same call on objects built fresh from
the same ASTs; after the history every object's deep dump must equal its dump before."""
import random, json, time
import numpy as np
import puan, puan.logic.plog as pg, puan.ndarray as pnd
import puan.modules.configurator as cc
from common import *
from plogio import *
from heapio import *

RULE = ("a history is non-trivial when it re-queries an object after >= 1 other call on the same object or on an object sharing "
        "a sub-proposition object with it (main/d2 streams), resp. when >= 2 look-alike configurators are queried (cfg stream); "
        "distinct by canonical JSON of (ASTs with sharing, calls)")

D2_DESC = ("AtLeast.assume assigns self.variable when the dictionary names the node's own id, so evaluate / evaluate_propositions / "
           "assume leak into later calls (puan/logic/plog/__init__.py, `if self.id in new_variable_bounds: self.variable = ...`)")

# ----------------------------------------------------------------------------- clean-process reference
REF = None
# One short-lived clean process per history (every call on a freshly built pool), resp. per
# configurator of a family (every call on a fresh build of THAT configurator): inside such a
# process only identical definitions are ever queried, so a cache keyed on look-alike objects
# cannot hand it an answer belonging to a different definition or to a mutated object.
def _ref_hist(packed, ops):
    asts = ast_unpack(packed)
    return [jcanon(apply_op(build_pool(asts)[op["obj"]], op)) for op in ops]
def _ref_cfg(fam, k, ops):
    return [jcanon(cfg_apply(build_family(fam)[k], op)) for op in ops]
def start_ref():
    global REF
    if REF is None:
        REF = CleanRef({"hist": _ref_hist, "cfg": _ref_cfg})
    return REF

# ----------------------------------------------------------------------------- running one history
def shares(o1, o2):
    a = {id(x) for x in all_nodes(o1) if not is_var(x)}
    return any(id(x) in a for x in all_nodes(o2) if not is_var(x))

def run_history(asts, ops):
    """run the calls on one pool; compare every answer with the same call on a fresh pool.
    Coq terms of every answer are printed at the moment of the call (results may share objects
    with the operand, which later calls may mutate)."""
    orc = IdOracle()
    dit = DeferIt()
    packed = ast_pack(asts)
    clean = start_ref().ask([("hist", (packed, ops))])[0]
    if clean == "job-timeout":
        return None                       # a call of this history does not return (built-in solver): not run in this process
    with orc:
        objs = build_pool(asts)
        lab = Labeler()
        for o in objs:
            lab.label_all(o)
        pool_t = lst(ldump(o, lab, dit) for o in objs)
        init_t = store_term(lab.snapshot())
        dumps0 = [sdump(o) for o in objs]
        steps, diffs, terms, gots = [], [], [], []
        for j, op in enumerate(ops):
            raw = apply_op(objs[op["obj"]], op)
            snap = lab.snapshot()
            if not isinstance(raw, BaseException):
                terms.append(f"({op_term(op, dit)}, {out_term(op, raw, objs[op['obj']], dit)}, {store_term(snap)})")
            else:
                terms.append(None)
            fresh = build_pool(asts)
            want = apply_op(fresh[op["obj"]], op)
            steps.append((op, raw, snap))
            gots.append((jnorm(jcanon(raw)), jnorm(jcanon(want))))
        dumps1 = [sdump(o) for o in objs]
    # reference 1: the same call on objects rebuilt in this process; reference 2: the same call in a
    # process where nothing else was ever queried (immune to process-wide caches)
    for j, ((got_c, want_c), clean_c) in enumerate(zip(gots, clean)):
        if got_c != clean_c:
            diffs.append((j, got_c, clean_c))
        elif got_c != want_c:
            diffs.append((j, got_c, want_c))
    end_diff = [k for k in range(len(objs)) if dumps0[k] != dumps1[k]]
    return {"objs": objs, "lab": lab, "steps": steps, "diffs": diffs, "end_diff": end_diff, "orc": orc, "dit": dit,
            "pool_t": pool_t, "init_t": init_t, "terms": terms, "dumps0": dumps0, "dumps1": dumps1}

def explained_by_d2(asts, ops, j):
    """Is the history dependence observed at call j (j == len(ops): in the final dumps) explained by
    finding D2?  (a) an earlier assume/evaluate/evaluate_propositions on the same object, or on an
    object sharing a sub-proposition object with it, names the id of one of its compound nodes;
    (b) replaying the history with those dictionary entries removed makes the difference disappear."""
    ref = build_pool(asts)
    cids = [compound_ids_of(o) for o in ref]
    targets = range(len(ref)) if j == len(ops) else [ops[j]["obj"]]
    a_ok = False
    for i in range(min(j, len(ops))):
        op = ops[i]
        if op["op"] in DICT_OPS and any(e[0] in cids[op["obj"]] for e in op["d"]):
            if any(t == op["obj"] or shares(ref[t], ref[op["obj"]]) for t in targets):
                a_ok = True
    if not a_ok:
        return False
    objs = build_pool(asts)
    d0 = [sdump(o) for o in objs]
    for i in range(min(j, len(ops))):
        apply_op(objs[ops[i]["obj"]], strip_compound_entries(ops[i], cids[ops[i]["obj"]]))
    if j == len(ops):
        return [sdump(o) for o in objs] == d0
    got = jcanon(apply_op(objs[ops[j]["obj"]], ops[j]))
    want = jcanon(apply_op(build_pool(asts)[ops[j]["obj"]], ops[j]))
    return got == want

def judge(res, stream, asts, ops, h):
    """oracle verdict for one history; returns True when nothing new was found"""
    clean = True
    for j, got, want in h["diffs"]:                  # EVERY difference is judged, not only the first
        if stream == "d2" and explained_by_d2(asts, ops, j):
            res.count("d2_witnessed_output")
            res.known_finding("D2", D2_DESC + f"; e.g. call #{j} {ops[j]['op']} on object {ops[j]['obj']} answered {json.dumps(got)[:120]} "
                              f"instead of {json.dumps(want)[:120]} after {json.dumps([o for o in ops[:j] if o.get('d')][:2])[:300]}")
        elif not clean:
            res.count("further_unexplained_difference_in_same_history")
        else:
            clean = False
            res.violation("oracle", f"history dependence ({stream} stream): call #{j} {ops[j]} answered {json.dumps(got)[:300]} but the same call on "
                          f"a freshly built identical object answers {json.dumps(want)[:300]}",
                          {"kind": "history", "asts": ast_pack(asts), "ops": ops, "at": j})
    if h["end_diff"]:
        if stream == "d2" and explained_by_d2(asts, ops, len(ops)):
            res.count("d2_witnessed_state")
            res.known_finding("D2", D2_DESC)
        else:
            clean = False
            k = h["end_diff"][0]
            res.violation("oracle", f"object {k} was changed by a history of queries ({stream} stream): before {json.dumps(h['dumps0'][k])[:300]} after {json.dumps(h['dumps1'][k])[:300]}",
                          {"kind": "history", "asts": ast_pack(asts), "ops": ops, "at": len(ops)})
    return clean

def history_case(h):
    """Coq term builder for one history (truncated at the first call that raised)"""
    terms = []
    for t in h["terms"]:
        if t is None:
            break
        terms.append(t)
    def term(it):
        return h["dit"].realize(f"({h['orc'].term(h['dit'])}, {h['pool_t']}, {h['init_t']}, {lst(terms)})", it)
    return term, len(terms)

def gen_valid_pool(rng, res, tries=20):
    for _ in range(tries):
        g, asts = gen_pool_asts(rng)
        try:
            objs = build_pool(asts)
            if any(is_var(o) for o in objs) or any(o.errors() for o in objs):
                res.count("pool_rejected_invalid")
                continue
        except Exception as e:
            res.count("pool_build_error:" + type(e).__name__)
            continue
        return g, asts, objs
    return None

def requeries(ops, objs):
    """non-triviality: some call hits an object after an earlier call on it or on a sharing object"""
    for j, op in enumerate(ops):
        for i in range(j):
            a, c = ops[i]["obj"], op["obj"]
            if a == c or shares(objs[a], objs[c]):
                return True
    return False

# ----------------------------------------------------------------------------- configurator stream
def rule_ast(rng, names, i):
    r = rng.random()
    pick = lambda lo, hi: [{"k": "str", "id": n} for n in rng.sample(names, rng.randint(lo, min(hi, len(names))))]
    rid = f"R{i}" if rng.random() < 0.8 else None
    if r < 0.2:
        return {"k": "AtMost", "v": rng.choice([1, 1, 2]), "ch": pick(2, 3), "id": rid}
    if r < 0.35:
        nm = rng.choice(names)
        lo, hi = rng.choice([(0, 3), (1, 2), (-1, 2), (0, 1)])
        return {"k": "AtLeast", "v": rng.choice([1, 2]), "s": None, "ch": [{"k": "var", "id": nm, "b": [lo, hi]}], "id": rid}
    if r < 0.55:
        ch = pick(2, 4)
        return {"k": "CcAny", "ch": ch, "default": [rng.choice(ch)["id"]] if rng.random() < 0.8 else None, "id": rid}
    if r < 0.75:
        ch = pick(2, 4)
        return {"k": "CcXor", "ch": ch, "default": [rng.choice(ch)["id"]] if rng.random() < 0.8 else None, "id": rid}
    if r < 0.85:
        return {"k": "Imply", "ch": [{"k": "All", "ch": pick(1, 2), "id": None}, {"k": "Any", "ch": pick(1, 2), "id": None}], "id": rid}
    return {"k": rng.choice(["All", "Any", "Xor"]), "ch": pick(2, 3), "id": rid}

def mutate_cfg(rng, ast):
    """a look-alike: same id, same number of rules; one rule changed so that the OLD cache key
    (AtLeast.__hash__/__eq__) still matches when possible"""
    a = json.loads(json.dumps(ast))
    rules = a["ch"]
    order = list(range(len(rules)))
    rng.shuffle(order)
    if rng.random() < 0.2:
        # an item of one configurator is a package (a named group of items) in the other: the id is a leaf there, a sub-proposition here
        spots = [(r, j) for r in rules if isinstance(r, dict) and r["k"] not in ("CcAny", "CcXor") for j, c in enumerate(r.get("ch", [])) if isinstance(c, dict) and c["k"] == "str"]
        if spots:
            r, j = rng.choice(spots)
            i0 = r["ch"][j]["id"]
            if json.dumps(a).count(json.dumps({"k": "str", "id": i0})) == 1 and json.dumps(a).count('"id": ' + json.dumps(i0)) == 1:      # named nowhere else
                r["ch"][j] = {"k": rng.choice(["All", "Any"]), "ch": [{"k": "str", "id": i0 + "_1"}, {"k": "str", "id": i0 + "_2"}], "id": i0}
                return a, "item_becomes_package"
    if rng.random() < 0.5:
        order.sort(key=lambda k: rules[k]["k"] not in ("CcAny", "CcXor"))      # prefer a change that the text form does not show
    for k in order:
        r = rules[k]
        if r["k"] == "AtMost":
            r["v"] = 2 if r["v"] == 1 else 1            # value -1 <-> -2 : hash(-1) == hash(-2)
            return a, "atmost_value"
        if r["k"] == "AtLeast" and r["ch"][0]["k"] == "var":
            lo, hi = r["ch"][0]["b"]
            r["ch"][0]["b"] = [lo + 1, hi - 1] if hi - lo >= 2 else [lo - 1, hi + 1]   # same lower+upper
            return a, "leaf_bounds_same_sum"
        if r["k"] == "CcAny" and r.get("default") and r["default"][0] in [c["id"] for c in r["ch"]] and len(r["ch"]) >= 2 and rng.random() < 0.5:
            # the same rule written by hand without the default: plain Any(default, Any(rest)) under the same id - the text
            # form (ids, signs, values, bounds) of the two configurators coincides, the default priorities do not
            d0 = r["default"][0]
            rest = [c for c in r["ch"] if c["id"] != d0]
            rules[k] = {"k": "Any", "ch": [{"k": "str", "id": d0}, {"k": "Any", "ch": rest, "id": None}], "id": r["id"]}
            return a, "untagged_restructured_twin"
        if r["k"] in ("CcAny", "CcXor") and rng.random() < 0.7:
            ids = [c["id"] for c in r["ch"]]
            cur = (r.get("default") or [None])[0]
            alt = [i for i in ids if i != cur]
            r["default"] = [rng.choice(alt)] if alt and rng.random() < 0.8 else None
            return a, "default_changed"
    return a, "identical_copy"

def rec_solver(log):
    def solver(poly, objs):
        objs = [np.asarray(o) for o in objs]
        log.append({"m": np.asarray(poly).tolist(), "objs": [o.tolist() for o in objs]})
        out = []
        for o in objs:
            x = np.array([int(v.bounds.upper) if c > 0 else int(v.bounds.lower) for v, c in zip(poly.A.variables, o)], dtype=np.int64)
            out.append((x, int(x.dot(o)), 5))
        return out
    return solver

def cfg_apply(c, op):
    k = op["op"]
    try:
        if k == "poly":
            return c.ge_polyhedron
        if k == "leafs":
            return c.leafs()
        if k == "prios":
            return c.default_prios
        if k == "select":
            log = []
            r = list(c.select(*op["prios"], solver=rec_solver(log), only_leafs=op.get("only_leafs", False)))
            return {"result": r, "solver_saw": log}
        if k == "add":
            return c.add(build(op["rule"]))
        if k == "json":
            return json.dumps(c.to_json(), sort_keys=True)
        if k == "evaluate":
            return c.evaluate(mk_dict(op["d"]))
        if k == "poly_plain":
            return c.to_ge_polyhedron(True)
    except (KeyboardInterrupt, SystemExit):
        raise
    except BaseException as e:
        return e
    raise ValueError(k)

def one_leaf_definition(c):
    seen = {}
    return all(seen.setdefault(x.id, x.bounds.as_tuple()) == x.bounds.as_tuple() for x in all_nodes(c) if is_var(x))

def build_family(fam):
    """configurators of a family; {"k": "addto", "src": j, "rule": ast} = fam[j].add(rule): a new
    configurator that shares every rule OBJECT with configurator j (aliasing through add)"""
    out = []
    for a in fam:
        out.append(out[a["src"]].add(build(a["rule"])) if a["k"] == "addto" else build(a))
    return out

def gen_cfg_family(rng):
    names = list("abcdef")[:rng.randint(3, 6)]
    if rng.random() < 0.3:
        # item names as catalogues have them: capitalised, or starting with a digit (they sort before the generated helper ids)
        names = ["Engine", "2WD", "A1", "Base", "c", "d"][:len(names)]
    base = {"k": "Stingy", "ch": [rule_ast(rng, names, i) for i in range(rng.randint(1, 3))], "id": "cfg" if rng.random() < 0.9 else None}
    fam, kinds, pairs = [base], [], []
    for _ in range(rng.randint(1, 3)):
        src = rng.randrange(len(fam))
        m, kind = mutate_cfg(rng, fam[src])
        fam.append(m); kinds.append(kind); pairs.append((src, len(fam) - 1, kind))
    # ids that are a package (a sub-proposition) in one member of the family are not used as items by later additions: an item
    # reference to a sub-proposition's id is a by-id reference, outside the plain models this check speaks about
    pk0 = {c_["id"] for m_ in fam for r_ in m_.get("ch", []) if isinstance(r_, dict) for c_ in r_.get("ch", []) if isinstance(c_, dict) and c_["k"] not in ("str", "var") and c_.get("id")}
    names = [n_ for n_ in names if n_ not in pk0]
    names += [f"zq{k_}" for k_ in range(max(0, 4 - len(names)))]      # the rule generators need a handful of item names
    if rng.random() < 0.3:
        fam.append({"k": "addto", "src": rng.randrange(len(fam)), "rule": dict(rule_ast(rng, names, 9), id="RX")})
        kinds.append("derived_by_add")
    twin = None
    if rng.random() < 0.2 and len(names) >= 4:
        # two configurators that SHARE a rule object through add(): the old rule holds an anonymous Any(rest); the added
        # rule is a defaulted Any/Xor whose non-default branch is a look-alike of it (same generated id)
        its = rng.sample(names, rng.randint(3, 4)); d0, rest = its[0], its[1:]
        old = {"k": "Imply", "ch": [{"k": "str", "id": rng.choice(names)}, {"k": "Any", "ch": [{"k": "str", "id": i} for i in rest], "id": None}], "id": rng.choice(["K1", "Z1"])}
        new = {"k": rng.choice(["CcAny", "CcXor"]), "ch": [{"k": "str", "id": i} for i in its], "default": [d0], "id": "M1"}
        fam.append({"k": "Stingy", "ch": [old], "id": "cfg"}); kinds.append("twin_base")
        fam.append({"k": "addto", "src": len(fam) - 1, "rule": new}); kinds.append("twin_derived_by_add")
        twin = (len(fam) - 2, len(fam) - 1)
    ops = []
    for src, dst, kind in pairs:
        # a look-alike pair is always asked for the same thing right after each other (either order)
        if kind != "identical_copy" and rng.random() < 0.7:
            first, second = (src, dst) if rng.random() < 0.5 else (dst, src)
            what = rng.choice(["poly", "poly", "prios"])
            ops += [{"op": what, "obj": first}, {"op": what, "obj": second}]
    for src, dst, kind in pairs:
        if kind == "item_becomes_package":
            first, second = (src, dst) if rng.random() < 0.6 else (dst, src)
            pr = [{rng.choice(names): rng.randint(1, 3)}]
            ops += [{"op": "select", "obj": first, "prios": pr, "only_leafs": True}, {"op": "select", "obj": second, "prios": pr, "only_leafs": True}, {"op": "leafs", "obj": second}]
    if twin:
        ops += [{"op": rng.choice(["poly", "prios"]), "obj": twin[1]}, {"op": "prios", "obj": twin[0]}, {"op": "poly", "obj": twin[0]}]
    for _ in range(rng.randint(4, 12)):
        k = rng.randrange(len(fam))
        r = rng.random()
        if r < 0.4:
            op = {"op": "poly", "obj": k}
        elif r < 0.55:
            op = {"op": "leafs", "obj": k}
        elif r < 0.65:
            op = {"op": "prios", "obj": k}
        elif r < 0.85:
            op = {"op": "select", "obj": k, "prios": [{rng.choice(names): rng.randint(-2, 3) for _ in range(rng.randint(1, 2))} for _ in range(rng.randint(1, 2))],
                  "only_leafs": rng.random() < 0.3}
        elif r < 0.9:
            op = {"op": "add", "obj": k, "rule": {"k": "Any", "ch": [{"k": "str", "id": rng.choice(names)}, {"k": "str", "id": "zz"}], "id": rng.choice(["NEW", "R0"])}}
        elif r < 0.95:
            op = {"op": "json", "obj": k}
        else:
            # items only: an id that is a package (sub-proposition) in one of the family is not named - naming a sub-proposition
            # in an interpretation writes to the object (known finding D2, exercised and classified in the d2 stream)
            pk = {m_["ch"][j_]["ch"][i_]["id"] for m_ in fam if m_.get("k") == "Stingy" for j_ in range(len(m_["ch"])) if isinstance(m_["ch"][j_], dict)
                  for i_, c_ in enumerate(m_["ch"][j_].get("ch", [])) if isinstance(c_, dict) and c_["k"] not in ("str", "var") and c_.get("id")}
            op = {"op": "evaluate", "obj": k, "d": [[n, "i", v, v] for n in names if n not in pk for v in [rng.randint(0, 1)]]}
        ops.append(op)
    return fam, kinds, ops

def cfg_out_term(op, raw, it):
    k = f"{op['obj']}%nat"
    if op["op"] == "poly":
        cols, rows = poly_parts(raw)
        dpv = np.asarray(raw.default_prio_vector).tolist()
        return (f"(CPoly {k}, CRPoly (mkCPoly {lst(f'({it.s(i)}, ({z(lo)}, {z(hi)}))' for i, lo, hi in cols)} "
                f"{lst(lst(z(x) for x in r) for r in rows)} {lst(z(x) for x in dpv)}))")
    if op["op"] == "leafs":
        return f"(CLeafs {k}, CRLeafs {lst(dump(x, it) for x in raw)})"
    return f"(CPrios {k}, CRPrios {lst(f'({it.s(i)}, {z(v)})' for i, v in raw.items())})"

def run_cfg_family(fam, ops):
    dit = DeferIt()
    cfgs = build_family(fam)
    cfgs_t = lst(dump(c, dit) for c in cfgs)
    d0 = [sdump(c) for c in cfgs]
    steps, diffs, terms, gots = [], [], [], []
    for j, op in enumerate(ops):
        raw = cfg_apply(cfgs[op["obj"]], op)
        if op["op"] in ("poly", "leafs", "prios") and not isinstance(raw, BaseException):
            terms.append(cfg_out_term(op, raw, dit))
        want = cfg_apply(build_family(fam)[op["obj"]], op)
        gots.append((jnorm(jcanon(raw)), jnorm(jcanon(want))))
        steps.append((op, raw))
    d1 = [sdump(c) for c in cfgs]
    ks = sorted({op["obj"] for op in ops})
    per_k = start_ref().ask([("cfg", (fam, k, [op for op in ops if op["obj"] == k])) for k in ks])
    its = {k: iter(r) for k, r in zip(ks, per_k)}
    clean = [next(its[op["obj"]]) for op in ops]
    for j, ((g, w), cw) in enumerate(zip(gots, clean)):
        if g != cw:
            diffs.append((j, g, cw))
        elif g != w:
            diffs.append((j, g, w))
    return {"cfgs": cfgs, "steps": steps, "diffs": diffs, "end_diff": [k for k in range(len(cfgs)) if d0[k] != d1[k]], "d0": d0, "d1": d1,
            "dit": dit, "cfgs_t": cfgs_t, "terms": terms}

def cfg_case(h):
    def term(it):
        return h["dit"].realize(f"({h['cfgs_t']}, {lst(h['terms'])})", it)
    return term, len(h["terms"])

# ----------------------------------------------------------------------------- the check
def fixed_witnesses(res):
    """the Coq witnesses replayed on the implementation"""
    # C09_refuted (D2)
    asts = [{"k": "All", "ch": [{"k": "str", "id": "x"}, {"k": "str", "id": "y"}], "id": "A"}]
    ops = [{"op": "evaluate", "obj": 0, "d": [["A", "i", 1, 1]]}, {"op": "evaluate", "obj": 0, "d": [["x", "i", 0, 0], ["y", "i", 0, 0]]}]
    h = run_history(asts, ops)
    res.evaluations += 2
    if h["diffs"]:
        j, got, want = h["diffs"][0]
        if explained_by_d2(asts, ops, j):
            res.known_finding("D2", D2_DESC + "; witness of theorem C09_refuted replayed on the implementation: m=All('x','y',variable='A'); "
                              f"m.evaluate({{'A':1}}); m.evaluate({{'x':0,'y':0}}) -> {got} (fresh object: {want})")
        else:
            res.violation("oracle", f"the D2 witness history differs but is not explained by D2: {got} vs {want}", {"kind": "history", "asts": ast_pack(asts), "ops": ops, "at": j})
    else:
        res.notes.append("the C09_refuted witness no longer reproduces on the implementation (D2 repaired?): the model in Heap.v is then out of date")
    # C09_cache_refuted_before (D3, fixed): the second configurator must get ITS OWN polyhedron
    for fam in ([{"k": "Stingy", "id": "cfg", "ch": [{"k": "AtMost", "v": v, "id": "B", "ch": [{"k": "str", "id": "a"}, {"k": "str", "id": "b"}]}]} for v in (1, 2)],
                [{"k": "Stingy", "id": "cfg", "ch": [{"k": "AtLeast", "v": 1, "s": None, "id": "B", "ch": [{"k": "var", "id": "a", "b": bb}]}]} for bb in ([0, 3], [1, 2])]):
        ops = [{"op": "poly", "obj": 0}, {"op": "poly", "obj": 1}, {"op": "leafs", "obj": 0}, {"op": "leafs", "obj": 1},
               {"op": "select", "obj": 0, "prios": [{"a": 1}]}, {"op": "select", "obj": 1, "prios": [{"a": 1}]}]
        h = run_cfg_family(fam, ops)
        res.evaluations += len(ops)
        for j, got, want in h["diffs"][:1]:
            res.violation("oracle", f"configurator answer depends on which other configurators were queried before (finding D3 is back?): call #{j} {ops[j]} "
                          f"answered {json.dumps(got)[:300]}, a freshly built identical configurator answers {json.dumps(want)[:300]}",
                          {"kind": "cfg", "family": fam, "ops": ops, "at": j})

def run(res, tier, seed):
    rng = random.Random(seed * 1000003 + 9)
    res.rule = RULE
    start_ref()          # forked BEFORE anything is queried in this process
    quick = tier == "quick"
    n_main, n_d2, n_cfg = (260, 140, 140) if quick else (4000, 2000, 2000)
    fixed_witnesses(res)

    streams = []           # (stream, asts, ops, h)
    for stream, n in (("main", n_main), ("d2", n_d2)):
        made = 0
        while made < n:
            gp = gen_valid_pool(rng, res)
            if gp is None:
                break
            g, asts, objs = gp
            plain_ok = all(x.bounds.constant is None for o in objs for x in all_nodes(o) if not is_var(x))
            ops = gen_history(rng, g, objs, rng.randint(2, 12), compound=(stream == "d2"), allow_poly=(stream == "main" and plain_ok))
            h = run_history(asts, ops)
            if h is None:
                res.count("history_skipped_a_call_did_not_return"); continue
            made += 1
            res.evaluations += len(ops)
            res.count(f"{stream}_histories")
            res.count(f"{stream}_calls", len(ops))
            res.count(f"{stream}_objects_{len(objs)}")
            for op in ops:
                res.count("op_" + op["op"])
            for a in asts:
                if a["k"] == "derive":
                    res.count(f"{stream}_pool_with_derived_{a['how']}")
            if len(objs) > 1 and any(shares(objs[a], objs[c]) for a in range(len(objs)) for c in range(a)):
                res.count(f"{stream}_pool_with_shared_subobject")
            for op, r, _ in h["steps"]:
                if isinstance(r, BaseException):
                    res.count(f"{stream}_raise_{op['op']}_{type(r).__name__}")
            if stream == "d2":
                cids = [compound_ids_of(o) for o in objs]
                if any(op.get("d") and any(e[0] in cids[op["obj"]] for e in op["d"]) for op in ops):
                    res.count("d2_history_names_compound")
            if requeries(ops, objs):
                res.nt(json.dumps([ast_pack(asts), ops], sort_keys=True))
            judge(res, stream, asts, ops, h)
            if len(res.samples) < 3:
                res.sample({"stream": stream, "objects": [repr(o) for o in objs], "calls": ops[:4]})
            streams.append((stream, asts, ops, h))

    # correspondence: whole histories through Heap.step
    for stream, fn in (("main", "check_history_pure"), ("d2", "check_history")):
        cases = []
        for s, asts, ops, h in streams:
            if s != stream:
                continue
            term, nsteps = history_case(h)
            if nsteps:
                cases.append((term, (asts, ops, h, nsteps)))
                res.count(f"corr_{stream}_calls", nsteps)
        n, failing, errs = run_case_shards("C09", f"hist_{stream}", "", "hist_case", fn, cases, shard=25,
                                           imports="Puan.Plog Puan.Corr Puan.Heap Puan.CorrHeap")
        res.corr_cases += n
        res.evaluations += sum(c[1][3] for c in cases)
        for e in errs:
            res.violation("corr", f"correspondence shard failed ({stream}): " + e, {"check": "CorrHeap." + fn, "error": e})
        for i in failing[:5]:
            asts, ops, h, nsteps = cases[i][1]
            it = Interner()
            t = cases[i][0](it)
            rc, out, err = coq_eval("C09", f"diag_{stream}_{i}", it.header() + f"\nEval vm_compute in diagnose {t}.\nEval vm_compute in guard_holds {t}.\n",
                                    imports="Puan.Plog Puan.Corr Puan.Heap Puan.CorrHeap")
            # escalate the oracle around the disagreeing pool
            found = False
            for _ in range(40):
                g2 = ModelGen(random.Random(rng.getrandbits(64)))
                objs = build_pool(asts)
                g2.leaves = {x.id: [int(x.bounds.lower), int(x.bounds.upper)] for o in objs for x in all_nodes(o) if is_var(x)}
                ops2 = gen_history(rng, g2, objs, 12, compound=(stream == "d2"), allow_poly=False)
                h2 = run_history(asts, ops2)
                if h2 is None:
                    continue
                res.evaluations += len(ops2)
                if not judge(res, stream, asts, ops2, h2):
                    found = True
                    break
            res.violation("corr", f"model history differs from the implementation ({stream} stream, Heap.step vs /repo): calls {json.dumps(ops[:nsteps])[:600]} ; "
                          f"Coq diagnose (first bad call index, output-mismatch?, model output) = {out.strip()[-700:]}",
                          {"check": "CorrHeap." + fn, "asts": ast_pack(asts), "ops": ops[:nsteps], "coq": out[-1500:], "failing_input_found": found})

    # configurator stream
    cfg_cases, collide = [], 0
    made = 0
    while made < n_cfg:
        fam, kinds, ops = gen_cfg_family(rng)
        try:
            cf = build_family(fam)
            # validated AND one definition per leaf id: a leaf id re-used with different bounds that
            # happen to hash alike is accepted by errors() (finding D4, property C10) — not C09's domain
            if any(c.errors() for c in cf) or not all(one_leaf_definition(c) for c in cf):
                res.count("cfg_rejected_invalid")
                continue
        except Exception as e:
            res.count("cfg_build_error:" + type(e).__name__)
            continue
        made += 1
        h = run_cfg_family(fam, ops)
        res.evaluations += len(ops)
        res.count("cfg_families")
        for k in kinds:
            res.count("cfg_variant_" + k)
        for op in ops:
            res.count("cfg_op_" + op["op"])
        for op, r in h["steps"]:
            if isinstance(r, BaseException):
                res.count(f"cfg_raise_{op['op']}_{type(r).__name__}")
        # how many families contain a pair that the OLD cache would have confused
        pair = any(cf[a] == cf[c] and hash(cf[a]) == hash(cf[c]) and sdump(cf[a]) != sdump(cf[c]) for a in range(len(cf)) for c in range(a))
        if pair:
            res.count("cfg_family_with_hash_eq_collision")
        if len({op["obj"] for op in ops if op["op"] in ("poly", "leafs", "select")}) >= 2:
            res.nt(json.dumps([fam, ops], sort_keys=True))
        for j, got, want in h["diffs"][:1]:
            res.violation("oracle", f"configurator answer depends on the query history: call #{j} {ops[j]} answered {json.dumps(got)[:300]}, "
                          f"a freshly built identical configurator answers {json.dumps(want)[:300]}", {"kind": "cfg", "family": fam, "ops": ops, "at": j})
        if h["end_diff"]:
            k = h["end_diff"][0]
            res.violation("oracle", f"configurator {k} was changed by queries: {json.dumps(h['d0'][k])[:300]} -> {json.dumps(h['d1'][k])[:300]}",
                          {"kind": "cfg", "family": fam, "ops": ops, "at": len(ops)})
        term, ns = cfg_case(h)
        if ns:
            cfg_cases.append((term, (fam, ops, h)))
    n, failing, errs = run_case_shards("C09", "cfg", "", "cfg_case", "check_cfg", cfg_cases, shard=25,
                                       imports="Puan.Plog Puan.Corr Puan.Heap Puan.CorrHeap")
    res.corr_cases += n
    for e in errs:
        res.violation("corr", "correspondence shard failed (cfg): " + e, {"check": "CorrHeap.check_cfg", "error": e})
    for i in failing[:5]:
        fam, ops, h = cfg_cases[i][1]
        it = Interner()
        t = cfg_cases[i][0](it)
        rc, out, err = coq_eval("C09", f"diag_cfg_{i}", it.header() + f"\nEval vm_compute in check_cfg_cached {t}.\n", imports="Puan.Plog Puan.Corr Puan.Heap Puan.CorrHeap")
        cached = "true" in out
        res.violation("corr", f"configurator model (no cache, Heap.cstep) differs from the implementation on family {json.dumps(fam)[:500]} calls {json.dumps(ops)[:300]}"
                      + ("; the answers match the model of the OLD lru_cache (finding D3 is back)" if cached else ""),
                      {"check": "CorrHeap.check_cfg", "family": fam, "ops": ops, "explained_by_old_cache_model": cached})

def replay(payload):
    start_ref()
    r = payload.get("replay", payload)
    if r.get("kind") == "cfg":
        h = run_cfg_family(r["family"], r["ops"])
        for j, got, want in h["diffs"]:
            print(f"call #{j} {r['ops'][j]}: answered {json.dumps(got)[:400]} ; fresh identical configurator answers {json.dumps(want)[:400]}")
        print("configurators changed:", h["end_diff"])
        return 1 if h["diffs"] or h["end_diff"] else 0
    asts = ast_unpack(r["asts"])
    ops = r["ops"]
    h = run_history(asts, ops)
    if h is None:
        print("a call of this history does not return in a clean process"); return 1
    bad = 0
    for j, got, want in h["diffs"]:
        d2 = explained_by_d2(asts, ops, j)
        print(f"call #{j} {ops[j]}: answered {json.dumps(got)[:400]} ; fresh identical object answers {json.dumps(want)[:400]}" + ("  [explained by known finding D2]" if d2 else ""))
        if not d2 or r.get("strict"):
            bad += 1
    if h["end_diff"]:
        d2 = explained_by_d2(asts, ops, len(ops))
        print("objects changed by the history:", h["end_diff"], "[explained by known finding D2]" if d2 else "")
        if not d2 or r.get("strict"):
            bad += 1
    print("history of", len(ops), "calls over", len(asts), "objects:", "property fails" if bad else "property holds")
    return 1 if bad else 0
