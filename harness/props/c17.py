"""C17 — base64 round trip reproduces propositions and configured polyhedra exactly.

LEVEL: partial.  The codec (pickle . gzip . base64) is library behaviour; the Coq theorems
(Properties/C17.v) only cover the packing logic of ge_polyhedron_config under the hypothesis that
the codec round-trips.  THIS differential check carries the weight:

  propositions (every class, nested, generated ids, integer bounds, pre-fixed compound bounds,
  cc.Any / cc.Xor with defaults and `prio` attributes, configurators):  deep structural dump (class,
  id, bounds, generated_id flag, sign, value, prio, default, Imply condition/consequence, EVERY
  other instance attribute), Coq-level dump, to_text(), and a fixed query set (evaluate on random
  assignments, evaluate_propositions, errors, to_json, flatten ids, variables, negate, reduce,
  to_ge_polyhedron(active/inactive); for configurators default_prios, leafs, ge_polyhedron and
  select with the same recording solver) before vs after from_b64(to_b64(.)).
  polyhedra (configurator polyhedra and directly constructed ones with other dtypes / indices /
  prio vectors):  class, dtype, matrix, variables (deep), index, default_prio_vector (+dtype), and
  select / A / b / column_bounds answers before vs after.
Correspondence (CorrPack.v): the list found inside the blob (undone with the library functions)
equals the model's `pack`, `unpack` of it equals what from_b64 returned and the input; plus the
constructor's default filling / shape check on argument prefixes (check_ctor)."""
import random, json, base64, gzip, pickle
import numpy as np
import puan, puan.logic.plog as pg, puan.ndarray as pnd
import puan.modules.configurator as cc
from common import *
from plogio import *
from heapio import sdump, jcanon, jnorm, ast_pack, ast_unpack, mk_dict

RULE = ("non-trivial = the object has a nested generated id AND (a cc default / prio attribute, or an integer leaf, or a "
        "pre-fixed compound); for polyhedra: built from a configurator with >= 1 defaulted rule or constructed with a "
        "non-default dtype/index/prio vector; distinct by canonical JSON of the AST / constructor arguments")

# ----------------------------------------------------------------------------- generators
def gen_prop_ast(rng):
    """a proposition AST of any class; cc.Any/cc.Xor/StingyConfigurator included, nested"""
    g = ModelGen(random.Random(rng.getrandbits(64)), explicit=rng.choice([0.2, 0.5, 0.8]), share=0.2)
    names = [n for n, bnd in g.leaves.items() if bnd == [0, 1]] or ["a"]
    def strs(lo, hi):
        k = rng.randint(lo, max(lo, min(hi, len(names))))
        return [{"k": "str", "id": n} for n in rng.sample(names, min(k, len(names)))]
    def cc_rule():
        if rng.random() < 0.15:
            # alternatives that are sub-propositions (a plain group with a generated id, a named package); the default names
            # one of them, an item that is not among the alternatives, or nothing
            grp = {"k": rng.choice(["Any", "All"]), "ch": strs(2, 2), "id": None}
            other = rng.choice([strs(1, 1)[0], {"k": "All", "ch": strs(2, 2), "id": g.fresh() or "PK"}])
            alts = [grp, other]; rng.shuffle(alts)
            named = [a["id"] for a in alts if a["k"] not in ("str", "var") and a.get("id")]
            dflt = rng.choice([[rng.choice(named)] if named else ["zz"], ["zz"], [rng.choice(names)], None])
            return {"k": rng.choice(["CcAny", "CcXor"]), "ch": alts, "default": dflt, "id": g.fresh()}
        ch = strs(2, 4)
        if rng.random() < 0.3:
            ch.append(g.prop(rng.randint(0, 1)))          # a compound operand next to the atoms
        dflt = [rng.choice([c["id"] for c in ch if c["k"] == "str"])] if rng.random() < 0.8 else None
        return {"k": rng.choice(["CcAny", "CcXor"]), "ch": ch, "default": dflt, "id": g.fresh(), "dform": rng.choice([None, None, "tuple", "iter", "gen"]) if dflt else None}
    r = rng.random()
    if r < 0.5:
        a = g.prop(rng.randint(0, 3))
    elif r < 0.65:
        a = cc_rule()
    elif r < 0.8:
        a = {"k": rng.choice(["All", "Any", "Imply", "AtLeast"]), "ch": [cc_rule(), g.prop(rng.randint(0, 2))], "id": g.fresh(), "v": 1, "s": None}
    else:
        rules = [cc_rule() if rng.random() < 0.6 else g.prop(rng.randint(0, 2)) for _ in range(rng.randint(1, 3))]
        a = {"k": "Stingy", "ch": rules, "id": rng.choice(["cfg", None])}
    for x in g.pool:                                       # some pre-fixed compound bounds
        if x.get("id") is not None and x["k"] != "Not" and rng.random() < 0.08:
            x["vb"] = rng.choice([[0, 0], [1, 1]])
    return g, a

def twin_config_ast(rng):
    """a configurator with a defaulted choice whose non-default branch also occurs, as a plain unnamed Any / Xor over the same
    items, under another rule; ids chosen so that the look-alike's parent sorts before or after the choice"""
    items = rng.sample(list("pqrstuvwxyz"), rng.randint(5, 7))
    ch_items = items[:rng.randint(3, 4)]
    dflt = rng.choice(ch_items)
    rest = [x for x in ch_items if x != dflt]
    kind = rng.choice(["CcAny", "CcAny", "CcXor"])
    choice = {"k": kind, "ch": [{"k": "str", "id": x} for x in ch_items], "default": [dflt], "id": rng.choice(["B", "M", None])}
    twin = {"k": "Any" if kind == "CcAny" else rng.choice(["Any", "Xor"]), "ch": [{"k": "str", "id": x} for x in rest], "id": None}
    user = {"k": rng.choice(["Any", "All", "Imply"]), "ch": [{"k": "str", "id": items[-1]}, twin], "id": rng.choice(["A", "Z", None])}
    rules = [choice, user]
    if rng.random() < 0.6:
        other = items[len(ch_items):-1] + [items[-1]]
        if len(other) >= 2:
            rules.append({"k": rng.choice(["CcAny", "CcXor"]), "ch": [{"k": "str", "id": x} for x in other[:3]], "default": [other[0]], "id": rng.choice(["C", None])})
    rng.shuffle(rules)
    return {"k": "Stingy", "ch": rules, "id": "cfg"}

def rec_solver(log):
    def solver(poly, objs):
        objs = [np.asarray(o) for o in objs]
        log.append({"poly": jcanon(poly), "objs": [o.tolist() for o in objs]})
        out = []
        for o in objs:
            x = np.array([int(v.bounds.upper) if c > 0 else int(v.bounds.lower) for v, c in zip(poly.A.variables, o)], dtype=np.int64)
            out.append((x, int(x.dot(o)), 5))
        return out
    return solver

def guarded(f):
    try:
        return jnorm(jcanon(f()))
    except (KeyboardInterrupt, SystemExit):
        raise
    except BaseException as e:            # pyo3 panics of puan_rspy derive from BaseException
        return ["raise", type(e).__name__]

def prop_queries(m, envs, prios):
    """the fixed query set; every answer in canonical JSON form"""
    qs = {}
    for i, env in enumerate(envs):
        qs[f"evaluate_{i}"] = guarded(lambda: m.evaluate(mk_dict(env)))
    qs["evalprops"] = guarded(lambda: m.evaluate_propositions(mk_dict(envs[0])))
    qs["assume"] = guarded(lambda: m.assume(mk_dict(envs[-1])))
    qs["errors"] = guarded(lambda: m.errors())
    qs["to_json"] = guarded(lambda: json.dumps(m.to_json(), sort_keys=True))
    qs["flatten_ids"] = guarded(lambda: [x.id for x in m.flatten()])
    qs["variables"] = guarded(lambda: m.variables)
    qs["to_short"] = guarded(lambda: m.to_short())
    qs["eq_bounds"] = guarded(lambda: (m.equation_bounds, bool(m.is_tautology), bool(m.is_contradiction)))
    qs["negate"] = guarded(lambda: m.negate())
    qs["reduce"] = guarded(lambda: m.reduce())
    # (pre-fixed compound bounds make puan_rspy panic, before and after alike: not queried)
    plain_ok = all(x.bounds.constant is None for x in all_nodes(m) if not is_var(x))
    if plain_ok:
        qs["poly_inactive"] = guarded(lambda: m.to_ge_polyhedron(False))
        qs["poly_active"] = guarded(lambda: m.to_ge_polyhedron(True))
    if isinstance(m, cc.StingyConfigurator) and plain_ok:
        qs["default_prios"] = guarded(lambda: m.default_prios)
        qs["leafs"] = guarded(lambda: m.leafs())
        qs["ge_polyhedron"] = guarded(lambda: m.ge_polyhedron)
        def sel(only):
            log = []
            r = list(m.select(*prios, solver=rec_solver(log), only_leafs=only))
            return {"result": r, "solver_saw": log}
        qs["select"] = guarded(lambda: sel(False))
        qs["select_leafs"] = guarded(lambda: sel(True))
    return qs

def poly_queries(P, prios):
    qs = {"self": guarded(lambda: P), "A": guarded(lambda: P.A), "b": guarded(lambda: P.b),
          "column_bounds": guarded(lambda: P.column_bounds()), "bool_idx": guarded(lambda: P.A.boolean_variable_indices),
          "int_idx": guarded(lambda: P.A.integer_variable_indices),
          "construct": guarded(lambda: P.A.construct({v.id: 1 for v in list(P.A.variables)[:2]}))}
    def sel():
        log = []
        r = list(P.select(*prios, solver=rec_solver(log)))
        return {"result": r, "solver_saw": log}
    qs["select"] = guarded(sel)
    return qs

def first_diff(a, b):
    for k in a:
        if a[k] != b.get(k):
            return k, a[k], b.get(k)
    return None

# ----------------------------------------------------------------------------- one proposition
import common as _common
@_common.guarded(lambda e, *a, **k: f"a call on the model or on its unpacked copy raised {type(e).__name__}: {str(e)[:160]}")
def check_prop(res, rng, ast, names, payload=None):
    """returns None if fine, else a description"""
    m = build(ast)
    if is_var(m):
        return None
    s = m.to_b64() if rng.random() < 0.6 else m.to_b64(str_decoding=rng.choice(["utf8", "ascii", "latin-1"]))     # documented keyword; base64 text is ASCII
    m2 = pg.from_b64(s)
    res.evaluations += 1
    if type(m) is not type(m2):
        return f"class changed: {type(m).__name__} -> {type(m2).__name__}"
    d1, d2 = sdump(m), sdump(m2)
    if d1 != d2:
        return f"structure changed: {json.dumps(d1)[:400]} -> {json.dumps(d2)[:400]}"
    it1, it2 = Interner(10**9), Interner(10**9)
    if dump(m, it1) != dump(m2, it2):
        return "model-level dump (classes, generated flags, bounds, prio, default, Imply condition) changed"
    if m.to_text() != m2.to_text():
        return f"to_text changed: {m.to_text()[:300]!r} -> {m2.to_text()[:300]!r}"
    lv = leaves_of(m)
    envs = []
    for _ in range(3):
        env = random_env(lv, rng)
        envs.append([[k, "i", v, v] for k, v in env.items()])
    envs.append([[k, "t", int(l.bounds.lower), int(l.bounds.upper)] for l in lv[: len(lv) // 2] for k in [l.id]])
    prios = [{rng.choice(names): rng.randint(-2, 3) for _ in range(rng.randint(1, 2))} for _ in range(rng.randint(1, 2))]
    # queries on two FRESH copies (so that a leaking query on the original cannot mask or fake a difference)
    q1 = prop_queries(build(ast), envs, prios)
    q2 = prop_queries(pg.from_b64(s), envs, prios)
    res.evaluations += len(q1)
    fd = first_diff(q1, q2)
    if fd:
        return f"query {fd[0]} answers differently after the round trip: {json.dumps(fd[1])[:300]} -> {json.dumps(fd[2])[:300]}"
    if sdump(pg.from_b64(m2.to_b64())) != d1:
        return "second round trip changes the structure"
    # unpacking the same string again gives a NEW object with the packed structure, whatever was done to the first one
    first = pg.from_b64(s)
    cids = [x.id for x in all_nodes(first) if not is_var(x)]
    try:
        first.assume({rng.choice(cids): rng.choice([0, 1])})      # (assume() naming a compound re-binds that node in place: finding D2)
        first.evaluate({cids[0]: 1})
    except Exception:
        pass
    again = pg.from_b64(s)
    res.evaluations += 1
    if again is first or sdump(again) != d1:
        return f"unpacking the same string a second time does not give the packed structure again (after the first unpacked object was used): {json.dumps(sdump(again))[:300]} vs {json.dumps(d1)[:300]}"
    # an object that has already answered queries must pack to the same thing as a fresh one
    used = build(ast)
    prop_queries(used, envs, prios)
    u2 = pg.from_b64(used.to_b64())
    res.evaluations += 1
    if sdump(u2) != d1:
        return f"an object packed AFTER it answered queries unpacks to a different structure: {json.dumps(sdump(u2))[:300]} vs {json.dumps(d1)[:300]}"
    q3 = prop_queries(u2, envs, prios)
    fd = first_diff(q1, q3)
    if fd:
        return f"query {fd[0]} answers differently on an object packed after it answered queries: {json.dumps(fd[1])[:300]} -> {json.dumps(fd[2])[:300]}"
    # propositions the library itself hands out (results of assume / reduce / negate carry values and bounds in the
    # integer types the library computed them in) and propositions given numpy integers must round-trip as well
    derived = [("negate", lambda: build(ast).negate()), ("reduce", lambda: build(ast).reduce()),
               ("assume-first-env", lambda: build(ast).assume({e[0]: e[2] for e in envs[0][: max(1, len(envs[0]) // 2)]})),
               ("assume-range", lambda: build(ast).assume({e[0]: (e[2], e[3]) for e in envs[-1]}))]
    for how, mk in derived:
        try:
            obj = mk()
        except Exception:
            continue
        if is_var(obj):
            continue
        res.evaluations += 1
        try:
            back = pg.from_b64(obj.to_b64())
        except Exception as e:
            return f"the result of {how} (a proposition handed out by the library) does not round-trip: {type(e).__name__}: {str(e)[:200]}"
        if type(back) is not type(obj) or sdump(back) != sdump(obj):
            return f"the result of {how} changes in the round trip: {json.dumps(sdump(obj))[:300]} -> {json.dumps(sdump(back))[:300]}"
        if jsonable_eval(obj, envs[0]) != jsonable_eval(back, envs[0]):
            return f"the result of {how} evaluates differently after the round trip"
    try:
        npm = pg.AtLeast(np.int64(int(m.value)), list(m.propositions), variable=puan.variable(m.id + "_np", bounds=np.array([0, 1])), sign=m.sign)
        back = pg.from_b64(npm.to_b64())
        if sdump(back) != sdump(npm):
            return f"a proposition given numpy integers changes in the round trip: {json.dumps(sdump(npm))[:300]} -> {json.dumps(sdump(back))[:300]}"
    except Exception as e:
        return f"a proposition given numpy integers (value numpy.int64, bounds numpy array) does not round-trip: {type(e).__name__}: {str(e)[:200]}"
    return None

def jsonable_eval(obj, env):
    try:
        r = obj.evaluate({e[0]: e[2] for e in env})
        return [int(r.lower), int(r.upper)]
    except Exception as e:
        return ["raise", type(e).__name__]

# ----------------------------------------------------------------------------- polyhedra
DT = {"int64": "DInt64", "int32": "DInt32", "int16": "DInt16", "int8": "DInt8", "float64": "DFloat64"}

def vdesc_term(v, it):
    i = v.id
    vid = f"(VInt {z(i)})" if isinstance(i, (int, np.integer)) and not isinstance(i, bool) else f"(VStr {it.s(i)})"
    return f"({vid}, ({z(v.bounds.lower)}, {z(v.bounds.upper)}))"

def integral(a):
    a = np.asarray(a)
    return a.dtype.kind in "iu" or bool(np.all(a == np.floor(a)))

def config_term(P, it):
    rows = np.asarray(P).tolist()
    return (f"(mkConfig {np.asarray(P).shape[-1]}%nat {lst(lst(z(x) for x in r) for r in rows)} {lst(z(x) for x in np.asarray(P.default_prio_vector).tolist())} "
            f"{lst(vdesc_term(v, it) for v in P.variables)} {lst(vdesc_term(v, it) for v in P.index)} {DT.get(str(P.dtype), 'DOther')})")

def field_terms(fields, it):
    out = []
    for f in fields:
        if isinstance(f, np.dtype):
            out.append(f"(FDtype {DT.get(str(f), 'DOther')})")
        elif isinstance(f, np.ndarray) and f.dtype == object:
            out.append(f"(FVars {lst(vdesc_term(v, it) for v in f)})")
        elif isinstance(f, np.ndarray) and f.ndim == 2:
            out.append(f"(FArr {f.shape[-1]}%nat {lst(lst(z(x) for x in r) for r in np.asarray(f).tolist())})")
        elif isinstance(f, np.ndarray) and f.ndim == 1:
            out.append(f"(FVec {lst(z(x) for x in f.tolist())})")
        else:
            out.append("(FDtype DOther)")
    return lst(out)

def gen_direct_poly(rng):
    """constructor arguments for a directly built ge_polyhedron_config (JSON-able)"""
    nr, ncol = rng.randint(1, 4), rng.randint(2, 5)
    rows = [[rng.randint(-3, 3) for _ in range(ncol)] for _ in range(nr)]
    a = {"rows": rows, "dtype": rng.choice(["int64", "int64", "int32", "int16"])}
    if rng.random() < 0.7:
        a["dpv"] = [rng.randint(-3, 2) for _ in range(ncol - 1)]
    if rng.random() < 0.7:
        a["vars"] = [[0, 1, 1]] + [[f"v{j}", *rng.choice([(0, 1), (0, 1), (-2, 3), (1, 1), (0, 5)])] for j in range(1, ncol)]
    if rng.random() < 0.5:
        a["index"] = [[rng.choice([j, f"r{j}"]), 0, 1] for j in range(nr)]
    return a

def build_direct(a, cut=None):
    args = [np.array(a["rows"])]
    args.append(np.array(a["dpv"]) if "dpv" in a else None)
    args.append([puan.variable(i, (lo, hi)) for i, lo, hi in a["vars"]] if "vars" in a else [])
    args.append([puan.variable(i, (lo, hi)) for i, lo, hi in a["index"]] if "index" in a else [])
    args.append(np.dtype(a["dtype"]))
    if cut is not None:
        args = args[:cut]
    return pnd.ge_polyhedron_config(*args)

def check_poly(res, rng, P, names):
    s = P.to_b64()
    Q = pnd.ge_polyhedron_config.from_b64(s)
    res.evaluations += 1
    c1, c2 = jnorm(jcanon(P)), jnorm(jcanon(Q))
    if type(P) is not type(Q):
        return f"class changed: {type(P).__name__} -> {type(Q).__name__}", Q, s
    if c1 != c2:
        k = next(k for k in c1 if c1[k] != c2.get(k))
        return f"polyhedron part `{k}` changed: {json.dumps(c1[k])[:300]} -> {json.dumps(c2.get(k))[:300]}", Q, s
    prios = [{rng.choice(names): rng.randint(-2, 3) for _ in range(rng.randint(1, 2))} for _ in range(rng.randint(1, 2))]
    q1, q2 = poly_queries(P, prios), poly_queries(Q, prios)
    res.evaluations += len(q1)
    fd = first_diff(q1, q2)
    if fd:
        return f"polyhedron query {fd[0]} answers differently after the round trip: {json.dumps(fd[1])[:300]} -> {json.dumps(fd[2])[:300]}", Q, s
    return None, Q, s

def unblob(s):
    """undo base64/gzip/pickle with the library functions (what is inside the blob)"""
    return pickle.loads(gzip.decompress(base64.b64decode(s.encode())))

# ----------------------------------------------------------------------------- the check
def run(res, tier, seed):
    rng = random.Random(seed * 1000003 + 17)
    res.rule = RULE
    quick = tier == "quick"
    n_prop, n_cfgpoly, n_direct, n_ctor = (700, 200, 200, 200) if quick else (12000, 3000, 3000, 3000)

    # ---- propositions
    made = tries = 0
    while made < n_prop and tries < n_prop * 4:
        tries += 1
        g, ast = gen_prop_ast(rng)
        try:
            m = build(ast)
            if is_var(m) or m.errors():
                res.count("prop_rejected_invalid")
                continue
        except Exception as e:
            res.count("prop_build_error:" + type(e).__name__)
            continue
        made += 1
        nodes = all_nodes(m)
        res.count("prop_class_" + type(m).__name__)
        res.count("prop_depth_%d" % depth_of(m))
        has_gen_nested = any((not is_var(x)) and x.generated_id for x in nodes[1:])
        has_prio = any(hasattr(x, "prio") for x in nodes)
        has_default = any(getattr(x, "default", None) for x in nodes)
        has_int = any(is_var(x) and x.bounds.as_tuple() != (0, 1) for x in nodes)
        has_fixed = any((not is_var(x)) and x.bounds.constant is not None for x in nodes)
        for flag, nm in ((has_gen_nested, "nested_generated_id"), (has_prio, "prio_attribute"), (has_default, "cc_default"),
                         (has_int, "integer_leaf"), (has_fixed, "prefixed_compound"), (any(isinstance(x, pg.Imply) for x in nodes), "has_imply")):
            if flag:
                res.count("prop_" + nm)
        if has_gen_nested and (has_prio or has_default or has_int or has_fixed):
            res.nt(json.dumps(ast_pack([ast]), sort_keys=True))
        names = sorted({x.id for x in nodes if is_var(x)}) or ["a"]
        bad = check_prop(res, rng, ast, names)
        if bad:
            res.violation("oracle", f"from_b64(to_b64(m)) is not m for m = {m!r} ({type(m).__name__}): {bad}",
                          {"kind": "prop", "ast": ast_pack([ast]), "seed": rng.getrandbits(32)})
        if len(res.samples) < 3:
            res.sample({"model": repr(m), "class": type(m).__name__, "b64_len": len(m.to_b64())})

    # ---- polyhedra: from configurators, and directly constructed
    cases = []
    made = tries = 0
    while made < n_cfgpoly and tries < n_cfgpoly * 6:
        tries += 1
        g, ast = gen_prop_ast(rng)
        if tries % 5 == 0:
            ast = twin_config_ast(rng); res.count("cfgpoly_twin_pattern")
        if ast["k"] != "Stingy":
            names0 = [n for n, bnd in g.leaves.items() if bnd == [0, 1]] or ["a"]
            ast = {"k": "Stingy", "ch": [ast], "id": "cfg"}
        try:
            cfg = build(ast)
            if cfg.errors() or any(x.bounds.constant is not None for x in all_nodes(cfg) if not is_var(x)):
                continue
            P = cfg.ge_polyhedron
        except (KeyboardInterrupt, SystemExit):
            raise
        except BaseException as e:
            res.count("cfgpoly_build_error:" + type(e).__name__)
            continue
        made += 1
        res.count("poly_from_configurator")
        if any(getattr(x, "default", None) for x in all_nodes(cfg)):
            res.count("poly_configurator_with_default")
            res.nt(json.dumps(ast_pack([ast]), sort_keys=True))
        names = [v.id for v in P.A.variables] or ["a"]
        bad, Q, s = check_poly(res, rng, P, names)
        if bad:
            res.violation("oracle", f"ge_polyhedron_config.from_b64(to_b64(P)) is not P for the polyhedron of {cfg!r}: {bad}", {"kind": "cfgpoly", "ast": ast_pack([ast])})
        if integral(P.default_prio_vector) and integral(Q.default_prio_vector):
            cases.append((lambda it, P=P, Q=Q, s=s: f"({config_term(P, it)}, {field_terms(unblob(s), it)}, {config_term(Q, it)})", ("cfgpoly", ast_pack([ast]))))
    for _ in range(n_direct):
        a = gen_direct_poly(rng)
        try:
            P = build_direct(a)
        except Exception as e:
            res.count("direct_build_error:" + type(e).__name__)
            continue
        res.count("poly_direct")
        res.count("poly_direct_dtype_" + a["dtype"])
        if a["dtype"] != "int64" or "index" in a or "dpv" in a:
            res.nt(json.dumps(a, sort_keys=True))
        names = [v.id for v in P.A.variables]
        bad, Q, s = check_poly(res, rng, P, names)
        if bad:
            res.violation("oracle", f"ge_polyhedron_config.from_b64(to_b64(P)) is not P for P = ge_polyhedron_config(**{json.dumps(a)}): {bad}", {"kind": "direct", "args": a})
        if integral(P.default_prio_vector) and integral(Q.default_prio_vector):
            cases.append((lambda it, P=P, Q=Q, s=s: f"({config_term(P, it)}, {field_terms(unblob(s), it)}, {config_term(Q, it)})", ("direct", a)))
    n, failing, errs = run_case_shards("C17", "pack", "", "pack_case", "check_pack", cases, shard=60, imports="Puan.Plog Puan.Pack Puan.CorrPack")
    res.corr_cases += n
    res.evaluations += n
    for e in errs:
        res.violation("corr", "correspondence shard failed (pack): " + e, {"check": "CorrPack.check_pack", "error": e})
    for i in failing[:5]:
        kind, data = cases[i][1]
        res.violation("corr", f"packing model differs from the implementation ({kind}): {json.dumps(data)[:600]}", {"check": "CorrPack.check_pack", "kind": kind, "data": data})

    # ---- the constructor on argument prefixes / empty lists / wrong lengths (default filling, shape check)
    ccases = []
    for _ in range(n_ctor):
        a = gen_direct_poly(rng)
        a["dtype"] = rng.choice(["int64", "int64", "int32"])
        a.setdefault("dpv", [rng.randint(-3, 2) for _ in range(len(a["rows"][0]) - 1)])
        if rng.random() < 0.25 and "vars" in a:
            a["vars"] = a["vars"][:-1]                       # shape mismatch -> ValueError
        if rng.random() < 0.15 and "index" in a:
            a["index"] = a["index"] + [["extra", 0, 1]]
        cut = rng.choice([2, 3, 4, 5, 5])
        try:
            R = build_direct(a, cut)
            obs = R
            res.count("ctor_ok")
        except ValueError:
            obs = None
            res.count("ctor_valueerror")
        except Exception as e:
            res.count("ctor_other_error:" + type(e).__name__)
            continue
        def term(it, a=a, cut=cut, obs=obs):
            fs = [f"(FArr {len(a['rows'][0])}%nat {lst(lst(z(x) for x in r) for r in a['rows'])})", f"(FVec {lst(z(x) for x in a['dpv'])})",
                  "(FVars " + lst(f"({'(VInt %s)' % z(i) if isinstance(i, int) else '(VStr %s)' % it.s(i)}, ({z(lo)}, {z(hi)}))" for i, lo, hi in a.get("vars", [])) + ")",
                  "(FVars " + lst(f"({'(VInt %s)' % z(i) if isinstance(i, int) else '(VStr %s)' % it.s(i)}, ({z(lo)}, {z(hi)}))" for i, lo, hi in a.get("index", [])) + ")",
                  f"(FDtype {DT[a['dtype']]})"][:cut]
            return f"({lst(fs)}, {opt(obs, lambda o: config_term(o, it))})"
        ccases.append((term, (a, cut)))
    n, failing, errs = run_case_shards("C17", "ctor", "", "ctor_case", "check_ctor", ccases, shard=100, imports="Puan.Plog Puan.Pack Puan.CorrPack")
    res.corr_cases += n
    res.evaluations += n
    for e in errs:
        res.violation("corr", "correspondence shard failed (ctor): " + e, {"check": "CorrPack.check_ctor", "error": e})
    for i in failing[:5]:
        a, cut = ccases[i][1]
        res.violation("corr", f"constructor model differs from ge_polyhedron_config(*args[:{cut}]) for args {json.dumps(a)[:600]}", {"check": "CorrPack.check_ctor", "args": a, "cut": cut})
    res.notes.append("level: partial — the codec (pickle/gzip/base64) is trusted in the theorems (hypothesis codec_ok); this differential check is what would expose a pickle-level loss")

def replay(payload):
    r = payload.get("replay", payload)
    class R:                       # minimal stand-in for Result
        evaluations = 0
    rng = random.Random(r.get("seed", 0))
    if r["kind"] == "prop":
        ast = ast_unpack(r["ast"])[0]
        m = build(ast)
        names = sorted({x.id for x in all_nodes(m) if is_var(x)}) or ["a"]
        bad = None
        for _ in range(20):
            bad = bad or check_prop(R, rng, ast, names)
        print("model", repr(m), type(m).__name__, "->", bad or "round trip exact")
        return 1 if bad else 0
    if r["kind"] == "cfgpoly":
        cfg = build(ast_unpack(r["ast"])[0])
        P = cfg.ge_polyhedron
    else:
        P = build_direct(r["args"])
    bad = None
    for _ in range(10):
        bad = bad or check_poly(R, rng, P, [v.id for v in P.A.variables])[0]
    print("polyhedron", np.asarray(P).tolist(), "->", bad or "round trip exact")
    return 1 if bad else 0
