"""C02 — integer solutions of the polyhedron are exactly the satisfying configurations."""
import random, json, itertools
import numpy as np
import puan, puan.logic.plog as pg
from common import *
from plogio import *
from props.c01 import poly_obs, lookalike

RULE = ("validated plain models (depth 0-4, every connective, explicit signs, sharing, boolean and small integer leaves); completeness: every "
        "satisfying in-bounds leaf assignment (exhaustive <= cap, else random) extends to a point of the asserted polyhedron; soundness (solver-safe "
        "models only; a model written with positive connectives and Not / Imply / XNor over such arguments, negative connectives only over atoms, has to BE solver safe): ALL integer points of the column box (auxiliary columns free) are enumerated when there are <= cap of them and every point "
        "satisfying all rows must make the model true on its leaf part; the negation of every solver-safe model must be solver safe again and is "
        "enumerated the same way; non-trivial = polyhedron has >= 2 auxiliary columns; distinct by canonical text")

ATOM = ("str", "var")
def expects_safe(ast):
    """the constructor expression only uses connectives that are documented to keep solver-safe form: positively signed
    ones (All, Any, AtLeast with positive sign, which is the default for value > 0) and the ones built from negate() (Not, Imply, XNor) over
    arguments of the same kind; negatively signed connectives (AtMost, Xor, AtLeast with negative sign) only over atoms"""
    k = ast["k"]
    if k in ATOM:
        return True
    ch = ast.get("ch", [])
    if k in ("AtMost", "Xor") or (k == "AtLeast" and (ast.get("s") == -1 or (ast.get("s") is None and ast["v"] <= 0))):
        return all(c["k"] in ATOM for c in ch)
    return all(expects_safe(c) for c in ch)

def has_neg_built_over_compound(ast):
    if ast["k"] in ATOM:
        return False
    ch = ast.get("ch", [])
    return (ast["k"] in ("Not", "Imply", "XNor") and any(c["k"] not in ATOM for c in ch)) or any(has_neg_built_over_compound(c) for c in ch)

def _raised(e, res, ast, m, *a, **k):
    return {"op": "raised", "model": ast_json(ast), "problem": f"to_ge_polyhedron / evaluate raised {type(e).__name__}: {str(e)[:160]}"}

@guarded(_raised)
def sound_model(res, ast, m, cap):
    """enumerate the column box of the asserted polyhedron"""
    cols, rows = poly_obs(m, True)
    n = 1
    for _, (lo, hi) in cols:
        n *= (hi - lo + 1)
        if n > cap:
            return "skipped"
    leaf_ids = {l.id for l in leaves_of(m)}
    A = np.array([r[1:] for r in rows], dtype=np.int64).reshape(len(rows), len(cols)); bb = np.array([r[0] for r in rows], dtype=np.int64)
    for pt in itertools.product(*[range(lo, hi + 1) for _, (lo, hi) in cols]):
        res.evaluations += 1
        if (A.dot(np.array(pt, dtype=np.int64)) >= bb).all():
            env = {c: v for (c, _), v in zip(cols, pt) if c in leaf_ids}
            if ref_eval(m, env) != 1:
                return {"op": "sound", "model": ast_json(ast), "point": {c: v for (c, _), v in zip(cols, pt)},
                        "problem": f"in-bounds integer point {dict(zip([c for c, _ in cols], pt))} satisfies the asserted polyhedron but its leaf part makes the model false"}
    return None

@guarded(_raised)
def sound_sampled(res, ast, m, rng, n_env):
    """soundness when the column box is too large to enumerate: leaf assignments (corners and random values) that make the
    model FALSE are extended by every 0/1 assignment of the auxiliary columns; none of the extensions may satisfy all rows"""
    cols, rows = poly_obs(m, True)
    leaf_ids = {l.id for l in leaves_of(m)}
    aux = [j for j, (c, _) in enumerate(cols) if c not in leaf_ids]
    if len(aux) > 10 or any(cols[j][1] != (0, 1) for j in aux):
        return None
    A = np.array([r[1:] for r in rows], dtype=object).reshape(len(rows), len(cols)); bb = [r[0] for r in rows]
    lv = leaves_of(m)
    for _ in range(n_env):
        env = random_env(lv, rng, corners=0.6)
        if ref_eval(m, env) == 1:
            continue
        base = [env.get(c, 0) for c, _ in cols]
        for bits in itertools.product([0, 1], repeat=len(aux)):
            res.evaluations += 1
            x = list(base)
            for j, v in zip(aux, bits):
                x[j] = v
            if all(sum(int(a) * int(v) for a, v in zip(row, x)) >= b0 for row, b0 in zip(A.tolist(), bb)):
                return {"op": "sound", "model": ast_json(ast), "point": {c: int(v) for (c, _), v in zip(cols, x)},
                        "problem": f"in-bounds integer point {dict(zip([c for c, _ in cols], x))} satisfies the asserted polyhedron but its leaf part makes the model false"}
    return None

@guarded(_raised)
def complete_model(res, ast, m, rng, n_env, cap):
    cols, rows = poly_obs(m, True)
    lv = leaves_of(m)
    envs = all_envs(lv, cap) if cap else None
    if envs is None:
        envs = [random_env(lv, rng) for _ in range(n_env)]
    envs = list(envs)
    step = max(1, len(envs) // 30)
    for k, env in enumerate(envs):
        vals = {}
        top = ref_eval_all(m, env, vals)
        if k % step == 0:
            # "makes the model true" is what AtLeast.evaluate tells the user: it has to be the truth function the polyhedron is judged by
            # the interpretation is "a dict": also the standard subclasses that answer for missing keys (chosen from the data)
            import collections
            kind = (k // step + len(env)) % 4
            arg = collections.Counter(env) if kind == 1 else collections.defaultdict(int, env) if kind == 2 else collections.OrderedDict(env) if kind == 3 else dict(env)
            lib = build(ast).evaluate(arg).as_tuple()      # a fresh object: what is judged is this one call
            res.evaluations += 1
            if lib != (top, top):
                return {"op": "complete", "model": ast_json(ast), "env": env, "mapping": kind,
                        "problem": f"AtLeast.evaluate({type(arg).__name__}({env})) is {lib} where sign*sum>=value gives {top}: " + ("the model is reported true for a leaf assignment the polyhedron has no point for"
                                   if top == 0 else "a satisfying assignment the polyhedron keeps is reported false")}
        if top != 1:
            continue
        res.evaluations += 1
        x = [vals.get(c) for c, _ in cols]
        inb = None not in x and all(lo <= v <= hi for v, (_, (lo, hi)) in zip(x, cols))
        ok = inb and all(r[0] <= sum(a * b_ for a, b_ in zip(r[1:], x)) for r in rows)
        if not ok:
            return {"op": "complete", "model": ast_json(ast), "env": env, "problem": f"satisfying assignment {env} has no completion (the evaluated truth values violate the asserted polyhedron or its bounds)"}
    return None

def slack_stream(res, rng, n):
    """positively signed nodes whose threshold is zero or negative over leaves that can be negative: true at the all-zero
    assignment, false elsewhere; built directly, through sign=+1, and as the negation of an AtMost"""
    for _ in range(n):
        k = rng.randint(1, 3)
        leaves = [{"k": "var", "id": nm, "b": [rng.randint(-5, -1), rng.randint(0, 3)]} if rng.random() < 0.7 else {"k": "str", "id": nm} for nm in rng.sample(list("abcdx"), k)]
        v = rng.randint(-6, 0)
        inner = rng.choice([{"k": "AtLeast", "v": v, "s": 1, "ch": leaves, "id": rng.choice(["T", None])},
                            {"k": "AtLeast", "v": v, "s": None, "ch": leaves, "id": "T"} if v < 0 else {"k": "AtLeast", "v": 0, "s": 1, "ch": leaves, "id": "T"},
                            {"k": "Not", "ch": [{"k": "AtMost", "v": v - 1, "ch": leaves, "id": rng.choice(["M", None])}], "id": None}])
        ast = inner if rng.random() < 0.6 else {"k": rng.choice(["All", "Any"]), "ch": [inner, {"k": "str", "id": "y"}], "id": rng.choice(["W", None])}
        try:
            m = build(ast)
            if m.errors() or not plain(m):
                continue
        except Exception:
            continue
        res.count("slack_threshold_over_negative_leaves")
        bad = complete_model(res, ast, m, rng, 0, 4000)
        if bad:
            res.violation("oracle", f"{bad['problem']} on {m!r}", bad)

def run(res, tier, seed):
    rng = random.Random(seed * 1000003 + 2)
    res.rule = RULE
    slack_stream(res, random.Random(seed * 7907 + 2), 40 if tier == "quick" else 400)
    n_models = 400 if tier == "quick" else 5000
    cap = 3000 if tier == "quick" else 20000
    models = gen_valid(rng, n_models, res, depth_max=4, want=lambda m: plain(m), big=0.0, int_leaves=0.25, wide=0.03)
    cases = []
    for ast, m in models:
        cols, rows = poly_obs(m, True)
        naux = sum(1 for c, _ in cols if c in compound_ids(m))
        safe = solver_safe(m)
        res.count("solver_safe" if safe else "not_solver_safe")
        if naux >= 2:
            res.nt(canon(m)); res.count("aux_columns>=2")
        # how many generated models meet every hypothesis of C02_sound_validated (besides validation itself, which gen_valid
        # established): no by-id leaf reference to a sub-proposition, generated flags coherent per id, every compound has a child
        nodes = all_nodes(m)
        comp_ids = {x.id for x in nodes if not is_var(x)}
        gen_by_id = {}
        for x in nodes:
            if not is_var(x):
                gen_by_id.setdefault(x.id, set()).add(bool(x.generated_id))
        hyp = (not any(is_var(x) and x.id in comp_ids for x in nodes) and all(len(v) == 1 for v in gen_by_id.values())
               and all(len(x.propositions) > 0 for x in nodes if not is_var(x)))
        res.count("meets_hypotheses_of_C02_sound_validated" if hyp and safe else "outside_hypotheses_of_C02_sound_validated")
        if expects_safe(ast):
            res.count("constructors_keep_safe_form")
            if has_neg_built_over_compound(ast):
                res.count("negate_built_connective_over_compound")
            if not safe:
                bad = sound_model(res, ast, m, 20 * cap)
                if bad and bad != "skipped":
                    res.violation("oracle", f"{bad['problem']} on {m!r} (built by connectives that keep solver-safe form: {json.dumps(ast_json(ast))[:300]})", bad)
                else:
                    res.violation("oracle", f"connectives that keep solver-safe form (positive ones and Not / Imply / XNor, which push negation inwards) over solver-safe arguments built a model that is not solver safe: {canon(m)}",
                                  {"op": "constructor-safe", "model": ast_json(ast), "problem": "constructors did not re-establish solver-safe form"})
        bad = complete_model(res, ast, m, rng, 8 if tier == "quick" else 25, 0 if tier == "quick" else 400)
        if bad:
            res.violation("oracle", f"{bad['problem']} on {m!r}", bad)
        if safe:
            bad = sound_model(res, ast, m, cap)
            if bad == "skipped":
                res.count("soundness_box_too_large")
            elif bad:
                res.violation("oracle", f"{bad['problem']} on {m!r}", bad)
            else:
                res.count("soundness_enumerated")
        # negation pushes inwards to re-establish solver-safe form: the negation of a solver-safe model must be
        # solver safe again, and then soundness applies to its polyhedron too
        if safe:
            try:
                neg = build(ast).negate()
            except Exception as e:
                neg = None; res.count("negate_error:" + type(e).__name__)
            if neg is not None and not is_var(neg) and not neg.errors() and plain(neg):
                res.count("negation_checked")
                if not solver_safe(neg):
                    res.violation("oracle", f"negating the solver-safe model {m!r} gives a model that is not in solver-safe form: {canon(neg)}",
                                  {"op": "negate-safe", "model": ast_json(ast), "problem": "negation of a solver-safe model is not solver safe"})
                else:
                    nast = {"k": "Not", "ch": [ast], "id": None}
                    bad = sound_model(res, nast, neg, cap)
                    if bad == "skipped":
                        res.count("negation_box_too_large")
                    elif bad:
                        res.violation("oracle", f"{bad['problem']} on the negation {neg!r} of {m!r}", bad)
        cases.append((lambda it, m=m, cols=cols, rows=rows:
                      f"(true, {dump(m, it)}, {lst(f'({it.s(c)}, ({z(lo)}, {z(hi)}))' for c, (lo, hi) in cols)}, {lst(lst(z(v) for v in r) for r in rows)})", (ast,)))
        res.sample({"model": repr(m), "columns": [c for c, _ in cols][:8], "solver_safe": safe})
        # a look-alike sibling (same ids / values / signs, deeper leaf bounds (lo-d, hi+d)) converted right after the original
        if depth_of(m) >= 2 and len(cases) % 3 == 0:
            ast2 = lookalike(ast, rng.choice([1, 2]))
            try:
                m2 = build(ast2)
                if not is_var(m2) and not m2.errors() and plain(m2):
                    res.count("lookalike_sibling")
                    bad = complete_model(res, ast2, m2, rng, 8 if tier == "quick" else 25, 0 if tier == "quick" else 400)
                    if not bad and solver_safe(m2):
                        bad = sound_model(res, ast2, m2, cap)
                        bad = None if bad == "skipped" else bad
                    if bad:
                        res.violation("oracle", f"{bad['problem']} on {m2!r} (converted after its look-alike {m!r})", dict(bad, converted_before=ast_json(ast)))
            except Exception as e:
                res.count("lookalike_build_error:" + type(e).__name__)
    # a named sub-proposition next to its own negation (negate() keeps an explicit id): B as the condition of an Imply / under Not
    # and B itself elsewhere.  Validation has to reject such a model (one id, two definitions); if it accepts it, the
    # model is a validated one and the property speaks about its polyhedron
    for _ in range(60 if tier == "quick" else 600):
        g = ModelGen(random.Random(rng.getrandbits(64)), int_leaves=0.0, big=0.0)
        k = rng.choice([1, 1, 2, 3])
        kids = [g.leaf() for _ in range(k)]
        if len({c["id"] for c in kids}) < k:
            continue
        bid = rng.choice(["B", "k9", "N1"])
        B = lambda: {"k": "AtLeast", "v": rng.choice([1, (k + 1) // 2, k]), "s": None, "ch": [dict(c) for c in kids], "id": bid}
        b1 = B(); b2 = dict(b1, ch=[dict(c) for c in kids])
        if rng.random() < 0.5 and k >= 2:
            # or: two definitions of B that print alike - children "u,v" (one leaf whose id contains a comma) and "u", "v"
            u, v2 = kids[0]["id"], kids[1]["id"]
            b2 = dict(b1, ch=[{"k": "str", "id": u + "," + v2}] + [dict(c) for c in kids[2:]])
            neg = {"k": rng.choice(["Any", "All"]), "ch": [b1, g.leaf()], "id": None}
            res.count("comma_twin_built")
        else:
            neg = {"k": "Imply", "ch": [b1, g.leaf()], "id": None} if rng.random() < 0.6 else {"k": "Not", "ch": [b1], "id": None}
        ast = {"k": rng.choice(["All", "Any"]), "ch": [neg, {"k": rng.choice(["Any", "All"]), "ch": [b2, g.leaf()], "id": None}], "id": rng.choice(["T", None])}
        try:
            m = build(ast)
            errs = m.errors()
        except Exception as e:
            res.count("negated_twin_error:" + type(e).__name__); continue
        if errs:
            res.count("negated_twin_rejected_by_validation"); continue
        res.count("negated_twin_accepted_by_validation")
        bad = complete_model(res, ast, m, rng, 0, 4096)
        if not bad and solver_safe(m):
            bad = sound_model(res, ast, m, 20 * cap)
            bad = None if bad == "skipped" else bad
        if bad:
            res.violation("oracle", f"{bad['problem']} on {m!r} (accepted by errors(); a named sub-proposition occurs next to its own negation)", bad)
    # wide stream: leaves far beyond the 16-bit default (big-M sums beyond 32 bits); too large to enumerate, so only
    # completeness (no satisfying configuration is lost) and the correspondence apply
    def beyond32(m):
        return max([abs(v) for r in poly_obs(m, True)[1] for v in r] + [0]) >= 2 ** 31
    wide = gen_valid(rng, 60 if tier == "quick" else 600, res, depth_max=3, want=lambda m: plain(m), big=0.6, huge=0.7, int_leaves=0.7)
    # ... of which a fixed number must really have a matrix entry beyond 32 bits (two or more huge leaves under one node)
    wide += gen_valid(rng, 25 if tier == "quick" else 250, res, depth_max=2, tries_factor=40, want=lambda m: plain(m) and beyond32(m), big=0.9, huge=0.9, int_leaves=0.9)
    for ast, m in wide:
        res.count("wide_stream")
        bad = complete_model(res, ast, m, rng, 12 if tier == "quick" else 30, 0)
        if not bad and solver_safe(m):
            bad = sound_sampled(res, ast, m, rng, 12 if tier == "quick" else 30)
            res.count("wide_stream_sampled_soundness")
        if bad:
            res.violation("oracle", f"{bad['problem']} on {m!r}", bad)
        cols, rows = poly_obs(m, True)
        if max([abs(v) for r in rows for v in r] + [0]) >= 2 ** 31:
            res.count("wide_stream_entry_beyond_32_bits")
        cases.append((lambda it, m=m, cols=cols, rows=rows:
                      f"(true, {dump(m, it)}, {lst(f'({it.s(c)}, ({z(lo)}, {z(hi)}))' for c, (lo, hi) in cols)}, {lst(lst(z(v) for v in r) for r in rows)})", (ast,)))
    # the oracle's "keeps solver-safe form" predicate and the constructors themselves against SafeFacts.keeps_safe / Cons.build
    scases = []
    for ast, m in models[: (200 if tier == "quick" else 2500)]:
        if any(("vb" in a) for a in [ast]) or "Cc" in json.dumps(ast_json(ast)):
            continue
        orc = IdOracle()
        try:
            with orc:
                m2 = build(ast)
            scases.append((lambda it, ast=ast, m2=m2, orc=orc: f"({orc.term(it)}, {form_term(ast, it)}, {b(expects_safe(ast))}, {dump(m2, it)})", (ast,)))
        except Exception as e:
            res.count("safe_case_error:" + type(e).__name__)
    ns, sfailing, serrs = run_case_shards("C02", "safe", "", "idtable * form * bool * prop", "check_safe", scases, imports="Puan.Plog Puan.Sem Puan.Corr Puan.Cons Puan.SafeFacts Puan.CorrSafe")
    res.corr_cases += ns; res.evaluations += ns
    for e in serrs:
        res.violation("corr", "correspondence shard failed: " + e, {"check": "CorrSafe.check_safe", "error": e})
    for i in sfailing[:10]:
        (ast,) = scases[i][1]
        res.violation("corr", f"constructor model / keeps_safe differs from the implementation on {json.dumps(ast_json(ast))[:300]} (harness predicate {expects_safe(ast)}, built model solver safe: {solver_safe(build(ast))})",
                      {"check": "CorrSafe.check_safe", "model": ast_json(ast), "failing_input_found": False})
    n, failing, errs = run_case_shards("C02", "encode", "", "bool * prop * list (ident * (Z * Z)) * list (list Z)", "check_encode", cases)
    res.corr_cases += n; res.evaluations += n
    for e in errs:
        res.violation("corr", "correspondence shard failed: " + e, {"check": "Corr.check_encode", "error": e})
    for i in failing[:10]:
        (ast,) = cases[i][1]
        m = build(ast)
        bad = complete_model(res, ast, m, rng, 3000, 20000) or (solver_safe(m) and sound_model(res, ast, m, 200000))
        if (not bad or bad == "skipped") and solver_safe(m):
            bad = sound_sampled(res, ast, m, rng, 3000)
        if bad and bad != "skipped":
            res.violation("oracle", f"{bad['problem']} on {m!r}", bad)
        res.violation("corr", f"model to_ge_polyhedron(True) differs from implementation on {m!r}: implementation rows {poly_obs(m, True)[1]}",
                      {"check": "Corr.check_encode", "model": ast_json(ast), "failing_input_found": bool(bad) and bad != "skipped"})

def replay(payload):
    r = payload.get("replay", payload)
    if r.get("converted_before"):
        build(r["converted_before"]).to_ge_polyhedron(True)
    m = build(r["model"])
    cols, rows = poly_obs(m, True)
    class R: evaluations = 0
    if r.get("op") == "negate-safe":
        neg = m.negate()
        print("model", m, "negation", canon(neg), "solver safe:", solver_safe(neg))
        return 0 if solver_safe(neg) else 1
    if r.get("op") == "raised":
        print("model", m, "converted:", cols[:3], "..."); return 0
    if r.get("op") == "constructor-safe":
        print("model", canon(m), "solver safe:", solver_safe(m))
        return 0 if solver_safe(m) else 1
    if r.get("op") == "sound":
        x = [r["point"][c] for c, _ in cols]
        sat = all(row[0] <= sum(a * b_ for a, b_ in zip(row[1:], x)) for row in rows)
        env = {l.id: r["point"][l.id] for l in leaves_of(m)}
        val = ref_eval(m, env)
        print("model", m, "point", r["point"], "satisfies polyhedron", sat, "model value on leaf part", val)
        return 1 if sat and val != 1 else 0
    if r.get("op") == "complete":
        bad = complete_model(R, r["model"], m, random.Random(0), 0, 0) if False else None
        vals = {}
        top = ref_eval_all(m, r["env"], vals)
        x = [vals.get(c) for c, _ in cols]
        ok = None not in x and all(lo <= v <= hi for v, (_, (lo, hi)) in zip(x, cols)) and all(row[0] <= sum(a * b_ for a, b_ in zip(row[1:], x)) for row in rows)
        import collections
        kind = r.get("mapping", 0)
        arg = collections.Counter(r["env"]) if kind == 1 else collections.defaultdict(int, r["env"]) if kind == 2 else collections.OrderedDict(r["env"]) if kind == 3 else dict(r["env"])
        lib = build(r["model"]).evaluate(arg).as_tuple()
        print("model", m, "env", r["env"], "value", top, "AtLeast.evaluate", lib, "completion feasible", ok)
        return 1 if (top == 1 and not ok) or lib != (top, top) else 0
    print("model", m, cols, rows)
    return 1
