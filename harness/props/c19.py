"""C19 — ineqs_satisfied / separable / ineq_separate_points agree with A x >= b for points of
rank 1, 2 and 3 (output shape follows the input shape)."""
import random, json, itertools
import numpy as np
import puan, puan.ndarray as pnd
from common import *
from polyio import *

RULE = ("random integer matrices (0-4 rows incl. zero rows, 1-4 columns, coefficients in -7..7, mostly small) x point arrays "
        "of rank 1 (vector), 2 (0-4 points) and 3 (0-3 groups of 0-3 points), values around the variable box; "
        "non-trivial = the three outputs together contain both truth values; distinct by canonical text of (matrix, points)")

METHODS = ("ineqs_satisfied", "separable", "ineq_separate_points")

def observe(P, arr):
    """call the three methods; returns nested python lists of bools (or a bool)"""
    out = []
    for name in METHODS:
        v = getattr(P, name)(arr)
        v = np.asarray(v)
        out.append(v.astype(bool).tolist())
    return out

def expected(M, pts, rank):
    """the property statement, computed row by row / point by point in plain Python"""
    def sat(p):
        return all(row_ok(r, p) for r in M)
    def viol_rows(group):
        return [any(not row_ok(r, p) for p in group) for r in M]
    if rank == 1:
        s = sat(pts); return [s, not s, viol_rows([pts])]
    if rank == 2:
        s = [sat(p) for p in pts]; return [s, [not x for x in s], viol_rows(pts)]
    s = [[sat(p) for p in g] for g in pts]
    return [s, [[not x for x in g] for g in s], [viol_rows(g) for g in pts]]

def shape_of(x):
    return list(np.asarray(x).shape)

def oracle_case(res, M, bnds, pts, rank, obs=None):
    """returns True if the implementation satisfies the property on this case"""
    n = len(bnds)
    res.evaluations += 1
    try:
        if obs is None:
            obs = observe(*poly_and_points(M, bnds, pts, rank))
    except Exception as e:
        res.violation("oracle", f"point classification raised {type(e).__name__}: {e} on matrix {M} points {pts}",
                      {"op": "points", "M": M, "bnds": bnds, "pts": pts, "rank": rank})
        return False
    exp = expected(M, pts, rank)
    for name, o, e in zip(METHODS, obs, exp):
        # degenerate empty shapes: compare as lists; numpy gives [] for zero groups
        if o != e and not (np.asarray(o, dtype=object).size == 0 and np.asarray(e, dtype=object).size == 0 and len(o) == len(e)):
            res.violation("oracle", f"{name} disagrees with A x >= b: matrix {M} points {pts} (rank {rank}): implementation {o}, required {e}",
                          {"op": "points", "M": M, "bnds": bnds, "pts": pts, "rank": rank, "method": name, "observed": o, "required": e})
            return False
    return True

def case_term(M, bnds, pts, rank, obs):
    P = poly_term(M, bnds)
    s, sp, isp = obs
    if rank == 1:
        return f"({P}, Pts1 {zl(pts)} {b(s)} {b(sp)} {bl(isp)})"
    if rank == 2:
        return f"({P}, Pts2 {zll(pts)} {bl(s)} {bl(sp)} {bl(isp)})"
    return f"({P}, Pts3 {zlll(pts)} {bll(s)} {bll(sp)} {bll(isp)})"

def flat(x):
    if isinstance(x, list):
        return [y for e in x for y in flat(e)]
    return [x]

def gen_wide_case(rng):
    """wide coefficients and 16-bit point values with every point ON or right next to a row's hyperplane
    (|a.x| far beyond 2^24 .. 2^53: anything but exact integer arithmetic misclassifies some of them)"""
    n = rng.randint(1, 4)
    bnds = [(-32768, 32767)] * n
    def pt():
        return [rng.choice([32767, -32768, 32766, rng.randint(-32768, 32767)]) for _ in range(n)]
    rank = rng.choice([1, 2, 2, 3])
    gsz = rng.randint(1, 2)
    pts = pt() if rank == 1 else [pt() for _ in range(rng.randint(1, 3))] if rank == 2 else [[pt() for _ in range(gsz)] for _ in range(rng.randint(1, 2))]
    flatpts = [pts] if rank == 1 else pts if rank == 2 else [p for g in pts for p in g]
    M = []
    for _ in range(rng.randint(1, 3)):
        a = [rng.choice([rng.randint(-2 ** 31, 2 ** 31), rng.randint(-40000, 40000), 1, -1, 0]) for _ in range(n)]
        x = rng.choice(flatpts)
        M.append([sum(c * v for c, v in zip(a, x)) + rng.choice([0, 0, 1, -1])] + a)
    return M, bnds, "wide_boundary", rank, pts

def gen_narrow_case(rng):
    """every entry of the matrix and of the points fits one byte (or 16 bits) while the products a.x do not:
    the answers must not depend on the integer type the caller stored the data in"""
    n = rng.randint(1, 3)
    top = rng.choice([100, 100, 30000])
    bnds = [(-top, top)] * n
    def pt():
        return [rng.choice([top, -top, rng.randint(-top, top), rng.randint(-3, 3)]) for _ in range(n)]
    rank = rng.choice([1, 2, 3, 3, 3])
    gsz = rng.randint(1, 2)
    pts = pt() if rank == 1 else [pt() for _ in range(rng.randint(1, 3))] if rank == 2 else [[pt() for _ in range(gsz)] for _ in range(rng.randint(1, 2))]
    M = [[rng.randint(-top, top)] + [rng.choice([rng.randint(-top, top), rng.randint(-top, top), 1, -1, 0]) for _ in range(n)]
         for _ in range(rng.randint(1, 3))]
    return M, bnds, "narrow_storage", rank, pts

def gen_large_sparse(rng):
    """several thousand entries, a few per cent of them non-zero, rows without any variable among them (first, inner, last):
    the sizes real configurator polyhedra have"""
    R, n = rng.randint(64, 90), rng.randint(66, 84)
    dens = rng.choice([0.02, 0.05, 0.1])
    M = []
    for i in range(R):
        if i in (0, R - 1) and rng.random() < 0.5 or rng.random() < 0.12:
            M.append([rng.choice([-1, 0, 0, 1])] + [0] * n)
        else:
            row = [rng.choice([-3, -1, 1, 1, 2]) if rng.random() < dens else 0 for _ in range(n)]
            M.append([rng.randint(-2, 2)] + row)
    bnds = [(0, 1) if rng.random() < 0.8 else (-2, 3) for _ in range(n)]
    rank = rng.choice([1, 2, 2, 3])
    pts = gen_points(rng, n, rank, bnds=bnds)
    return M, bnds, "large_sparse", rank, pts

def gen_case(rng):
    if rng.random() < 0.12:
        return gen_wide_case(rng)
    if rng.random() < 0.10:
        return gen_narrow_case(rng)
    M, bnds, prof = gen_system(rng, rng.choice(["bool", "bigm", "mixed", "mixed", "zeros", "forcing"]))
    if rng.random() < 0.04:
        M, prof = [], "no_rows"          # a polyhedron without rows: every point is satisfied, nothing separates
    rank = rng.choice([1, 2, 2, 3, 3])
    pts = gen_points(rng, len(bnds), rank, bnds=bnds)
    return M, bnds, prof, rank, pts

def run(res, tier, seed):
    rng = random.Random(seed * 1000003 + 19)
    res.rule = RULE
    n_cases = 700 if tier == "quick" else 9000
    cases = []
    for _ in range(n_cases):
        M, bnds, prof, rank, pts = gen_case(rng)
        n = len(bnds)
        try:
            obs = observe(*poly_and_points(M, bnds, pts, rank))
        except Exception as e:
            res.violation("oracle", f"point classification raised {type(e).__name__}: {e} on matrix {M} points {pts}",
                          {"op": "points", "M": M, "bnds": bnds, "pts": pts, "rank": rank})
            continue
        res.count(f"rank_{rank}"); res.count("profile_" + prof)
        vals = set(flat(obs))
        if vals == {True, False}:
            res.nt(json.dumps([M, pts])); res.count("both_truth_values")
        if not flat(pts):
            res.count("empty_points_array")
        if any(all(c == 0 for c in r[1:]) for r in M):
            res.count("has_zero_row")
        if any(abs(c) > 1 for r in M for c in r[1:]):
            res.count("non_unit_coefficient")
        # shape rule (checked directly as well as through the Forall2 theorems + correspondence)
        exp = expected(M, pts, rank)
        oracle_case(res, M, bnds, pts, rank, obs)
        if M and len(cases) % 5 == 0:
            # the polyhedron is an array: a right-hand side or a coefficient is written in place after the first
            # classification, and the same object is asked again - the answers are those of the polyhedron as it is then
            i, j = rng.randrange(len(M)), rng.choice([0, 0, rng.randrange(len(M[0]))])
            v = int(M[i][j]) + rng.choice([1, -1, 2, -3])
            if -100 <= v <= 100:
                try:
                    P, arr = poly_and_points(M, bnds, pts, rank)
                    observe(P, arr)
                    P[i, j] = v
                    M2 = [list(r) for r in M]; M2[i][j] = v
                    obs2 = observe(P, arr)
                    res.count("classification_after_in_place_write")
                    exp2 = expected(M2, pts, rank)
                    for name, o, e in zip(METHODS, obs2, exp2):
                        if o != e and not (np.asarray(o, dtype=object).size == 0 and np.asarray(e, dtype=object).size == 0 and len(o) == len(e)):
                            res.violation("oracle", f"{name} after an in-place write P[{i},{j}] = {v} (and one earlier classification on the same object) disagrees with A x >= b: matrix {M2} points {pts}: implementation {o}, required {e}",
                                          {"op": "points-after-write", "M": M, "bnds": bnds, "pts": pts, "rank": rank, "write": [i, j, v], "method": name})
                            break
                except Exception as e:
                    res.count("after_write_error:" + type(e).__name__)
        try:
            term = case_term(M, bnds, pts, rank, obs)
        except Exception as e:
            # output nesting does not even have the model's type: a shape break
            res.violation("oracle", f"output shape of point classification does not follow the input shape: matrix {M} points {pts}: {obs}",
                          {"op": "points", "M": M, "bnds": bnds, "pts": pts, "rank": rank})
            continue
        cases.append((term, (M, bnds, pts, rank, obs)))
        res.sample({"matrix": M, "points": pts, "ineqs_satisfied": obs[0], "separable": obs[1], "ineq_separate_points": obs[2]})
    n, failing, errs = run_case_shards("C19", "points", "", "poly * pts_case", "check_points", cases,
                                       imports="Puan.Poly Puan.CorrPoly")
    res.corr_cases += n
    res.evaluations += n
    for e in errs:
        res.violation("corr", "correspondence shard failed: " + e, {"check": "CorrPoly.check_points", "error": e})
    # extra oracle stream (cheap): more point arrays, exhaustive small boxes in the thorough tier
    extra = 1500 if tier == "quick" else 20000
    for _ in range(extra):
        M, bnds, prof, rank, pts = gen_case(rng)
        oracle_case(res, M, bnds, pts, rank)
    for _ in range(16 if tier == "quick" else 200):
        M, bnds, prof, rank, pts = gen_large_sparse(rng)
        res.count("large_sparse_polyhedra")
        oracle_case(res, M, bnds, pts, rank)
    if tier != "quick":
        # every point of the box +-1 for 300 systems, as one rank-2 array and as rank-3 groups of rows
        for _ in range(300):
            M, bnds, prof = gen_system(rng, "mixed", max_cols=3)
            bx = [(lo - 1, hi + 1) for lo, hi in bnds]
            if box_size(bx) > 400:
                continue
            allp = [list(p) for p in box_points(bx)]
            oracle_case(res, M, bnds, allp, 2)
            k = max(1, len(allp) // 3)
            grp = [allp[i:i + k] for i in range(0, k * (len(allp) // k), k)]
            oracle_case(res, M, bnds, grp, 3)
    # escalate around correspondence disagreements
    for i in failing[:10]:
        M, bnds, pts, rank, obs = cases[i][1]
        found = not oracle_case(res, M, bnds, pts, rank, obs)
        if not found:
            sub = random.Random(i)
            for _ in range(3000):
                rk = sub.choice([1, 2, 3])
                if not oracle_case(res, M, bnds, gen_points(sub, len(bnds), rk, bnds=bnds), rk):
                    found = True
                    break
        res.violation("corr", f"model of point classification differs from the implementation on matrix {M} points {pts}: implementation returned {obs}",
                      {"check": "CorrPoly.check_points", "M": M, "pts": pts, "rank": rank, "implementation_output": obs, "failing_input_found": found})

def replay(payload):
    r = payload.get("replay", payload)
    M, bnds, pts, rank = r["M"], [tuple(x) for x in r["bnds"]], r["pts"], r["rank"]
    if r.get("op") == "points-after-write":
        i, j, v = r["write"]
        P, arr = poly_and_points(M, bnds, pts, rank)
        observe(P, arr); P[i, j] = v
        M2 = [list(x) for x in M]; M2[i][j] = v
        obs2, exp2 = observe(P, arr), expected(M2, pts, rank)
        print("matrix after the write", M2, "points", pts, "implementation", obs2, "required", exp2)
        return 0 if obs2 == exp2 else 1
    try:
        obs = observe(*poly_and_points(M, bnds, pts, rank))
    except Exception as e:
        print("matrix", M, "points", pts, "raised", type(e).__name__, e)
        return 1
    exp = expected(M, pts, rank)
    print("matrix", M, "points", pts, "rank", rank)
    bad = 0
    for name, o, e in zip(METHODS, obs, exp):
        same = (o == e) or (np.asarray(o, dtype=object).size == 0 and np.asarray(e, dtype=object).size == 0 and len(o) == len(e))
        print(f"  {name}: implementation {o} required {e} {'ok' if same else 'MISMATCH'}")
        bad |= (not same)
    return 1 if bad else 0
