"""C07 — assuming values is equivalent to evaluating with them."""
import random, json
import puan, puan.logic.plog as pg
from common import *
from plogio import *

RULE = ("validated models (depth 0-3, all connectives, integer leaves, sharing) x assumption dictionaries over any subset of "
        "leaf and sub-proposition ids (ints, tuples, Bounds, sub-ranges) x total interpretations of the remaining leaves (and of "
        "range-assumed leaves, inside the assumed range); assume(d1).evaluate(d2) vs evaluate({**d2, **d1}) on fresh objects; "
        "additionally on ONE object with ONE dictionary object that grows in place between the calls (leaf-only d1); non-trivial = d1 names a sub-proposition id or assume() derives a constant for a node d1 does not fix; distinct by (model, d1, d2)")

def split_interp(m, rng):
    d1 = rand_interp(m, rng, p_leaf=rng.choice([0.2, 0.5, 0.8]), p_comp=rng.choice([0, 0.15, 0.3]), point=0.75)
    if rng.random() < 0.35:
        # assumptions that keep lower + upper of a leaf unchanged: the exact midpoint of the range, or a symmetric narrowing
        for l in leaves_of(m):
            lo, hi = int(l.bounds.lower), int(l.bounds.upper)
            if hi - lo >= 2 and rng.random() < 0.7:
                if (lo + hi) % 2 == 0 and rng.random() < 0.6:
                    d1[l.id] = ((lo + hi) // 2, (lo + hi) // 2)
                else:
                    k = rng.randint(1, (hi - lo - 1) // 2) if hi - lo >= 3 else 1
                    d1[l.id] = (lo + k, hi - k) if lo + k <= hi - k else ((lo + hi) // 2, (lo + hi) // 2)
    d2, union = {}, dict(d1)
    for l in leaves_of(m):
        if l.id in d1:
            if d1[l.id][0] != d1[l.id][1] and rng.random() < 0.0:
                pass
            continue
        lo, hi = int(l.bounds.lower), int(l.bounds.upper)
        v = rng.choice([lo, hi, rng.randint(lo, hi)])
        d2[l.id] = (v, v)
    return d1, d2

def oracle_case(res, ast, d1, d2, rng):
    res.evaluations += 1
    try:
        lhs = build(ast).assume(forms(d1, rng)).evaluate(forms(d2, rng)).as_tuple()
        rhs = build(ast).evaluate({**forms(d2, rng), **forms(d1, rng)}).as_tuple()
        union = {**d2, **d1}
        if all(v[0] == v[1] for v in union.values()) and rhs == lhs:
            # the same union with every value as a plain Python int
            rhs = build(ast).evaluate({k: int(v[0]) for k, v in union.items()}).as_tuple()
    except Exception as e:
        return {"op": "assume-evaluate", "model": ast_json(ast), "d1": {k: list(v) for k, v in d1.items()}, "d2": {k: list(v) for k, v in d2.items()},
                "problem": f"assume(d1).evaluate(d2) / evaluate(d1 ∪ d2) raised {type(e).__name__}: {str(e)[:160]}"}
    if lhs != rhs:
        return {"op": "assume-evaluate", "model": ast_json(ast), "d1": {k: list(v) for k, v in d1.items()}, "d2": {k: list(v) for k, v in d2.items()},
                "problem": f"assume(d1).evaluate(d2) = {lhs} but evaluate(d1 ∪ d2) = {rhs}"}
    return None

def grown_case(res, ast, d1, d2):
    """one model object, ONE dictionary object: assume(sel), then sel grows in place to d1 ∪ d2 and is handed to the same
    object again - evaluate(sel) and assume(sel) must look at what the dictionary holds now"""
    res.evaluations += 1
    obj = build(ast)
    sel = {k: tuple(v) for k, v in d1.items()}
    obj.assume(sel)
    sel.update({k: tuple(v) for k, v in d2.items()})
    lhs = obj.evaluate(sel).as_tuple()
    again = obj.assume(sel)
    lhs2 = again.bounds.as_tuple() if is_var(again) else again.evaluate({}).as_tuple()
    rhs = build(ast).evaluate({**{k: tuple(v) for k, v in d2.items()}, **{k: tuple(v) for k, v in d1.items()}}).as_tuple()
    if lhs != rhs or lhs2 != rhs:
        return {"op": "grown-dict", "model": ast_json(ast), "d1": {k: list(v) for k, v in d1.items()}, "d2": {k: list(v) for k, v in d2.items()},
                "problem": f"after assume(sel) and sel.update(d2) on the same object: evaluate(sel) = {lhs}, assume(sel) gives {lhs2}, a fresh object evaluates d1 ∪ d2 to {rhs}"}
    return None

def run(res, tier, seed):
    rng = random.Random(seed * 1000003 + 7)
    res.rule = RULE
    n_models = 350 if tier == "quick" else 4000
    per = 2 if tier == "quick" else 3
    models = gen_valid(rng, n_models, res, constvar=0.12, wide=0.03)
    cases = []
    for ast, m in models:
        res.count("depth_%d" % depth_of(m))
        for _ in range(per):
            d1, d2 = split_interp(m, rng)
            fresh = build(ast)
            try:
                assumed = build(ast).assume(forms(d1, rng))
            except Exception as e:
                res.violation("oracle", f"assume(d1) raised {type(e).__name__}: {str(e)[:160]} on {m!r} d1={d1}",
                              {"op": "assume-evaluate", "model": ast_json(ast), "d1": {k: list(v) for k, v in d1.items()}, "d2": {k: list(v) for k, v in d2.items()},
                               "problem": f"assume(d1) raised {type(e).__name__}"})
                continue
            names_comp = any(k in compound_ids(m) for k in d1)
            derived = (not is_var(assumed)) and any((not is_var(x) or x.id in compound_ids(m)) and x.bounds.lower == x.bounds.upper and x.id not in d1 for x in all_nodes(assumed)[1:])
            if names_comp: res.count("d1_names_compound")
            if derived: res.count("derived_constant")
            if is_var(assumed): res.count("assumed_collapsed_to_constant")
            if any(v[0] != v[1] for v in d1.values()): res.count("d1_has_range")
            if names_comp or derived:
                res.nt(canon(m) + json.dumps([sorted(d1.items()), sorted(d2.items())]))
            bad = oracle_case(res, ast, d1, d2, rng)
            if bad:
                res.violation("oracle", bad["problem"] + f" on {m!r} d1={d1} d2={d2}", bad)
            if names_comp and len(cases) % 2 == 0:
                # the further interpretation is a whole catalogue: dozens of items this model does not mention
                d2c = dict(d2); d2c.update({f"cat{j:03d}": ((j * 7 + len(cases)) % 2,) * 2 for j in range(70)})
                res.count("catalogue_sized_interpretation")
                bad = oracle_case(res, ast, d1, d2c, rng)
                if bad:
                    res.violation("oracle", bad["problem"] + f" on {m!r} d1={d1} d2={d2} + 70 items the model does not mention", bad)
            if d1 and d2 and not names_comp:
                res.count("grown_dictionary_history")
                bad = grown_case(res, ast, d1, d2)
                if bad:
                    res.violation("oracle", bad["problem"] + f" on {m!r} d1={d1} d2={d2}", bad)
            cases.append((lambda it, fresh=fresh, d1=d1, assumed=assumed: f"({dict_term(d1, it)}, {dump(fresh, it)}, {dump(assumed, it)})", (ast, d1, d2)))
            res.sample({"model": repr(m), "d1": {k: list(v) for k, v in d1.items()}, "d2": {k: list(v) for k, v in d2.items()}, "assumed": repr(assumed)})
    # a counting node over a sub-proposition and an integer leaf: the assumption decides the sub-proposition, the later
    # interpretation gives the leaf a value of 2 or more (one operand may count for several)
    for _ in range(50 if tier == "quick" else 600):
        x, y, t, z = rng.sample(list("abcdefg"), 4)
        sub = {"k": rng.choice(["Any", "All", "Xor"]), "ch": [{"k": "str", "id": x}, {"k": "str", "id": y}], "id": rng.choice(["B", None])}
        leaf = {"k": "var", "id": t, "b": [rng.choice([0, -1]), rng.choice([2, 3, 4])]}
        ch = [sub, leaf] + ([{"k": "str", "id": z}] if rng.random() < 0.4 else [])
        k = rng.choice(["All", "All", "AtLeast", "AtMost"])
        top = {"k": k, "ch": ch, "id": rng.choice(["A", None])}
        if k in ("AtLeast", "AtMost"): top["v"] = rng.randint(1, 3)
        if k == "AtLeast": top["s"] = None
        ast = top if rng.random() < 0.6 else {"k": rng.choice(["Any", "Imply"]), "ch": [top, {"k": "str", "id": "h"}], "id": None}
        d1 = {x: (rng.choice([0, 1]),) * 2, y: (rng.choice([0, 1]),) * 2}
        d2 = {t: (rng.choice([2, leaf["b"][1]]),) * 2, z: (rng.choice([0, 1]),) * 2, "h": (rng.choice([0, 1]),) * 2}
        try:
            m = build(ast)
            if m.errors():
                continue
            d2 = {k_: v for k_, v in d2.items() if k_ in {l.id for l in leaves_of(m)}}
        except Exception:
            continue
        res.count("counting_node_with_integer_leaf")
        bad = oracle_case(res, ast, d1, d2, rng)
        if bad:
            res.violation("oracle", bad["problem"] + f" on {m!r} d1={d1} d2={d2}", bad)
    n, failing, errs = run_case_shards("C07", "assume", "", "interp * prop * prop", "check_assume", cases)
    res.corr_cases += n; res.evaluations += n
    for e in errs:
        res.violation("corr", "correspondence shard failed: " + e, {"check": "Corr.check_assume", "error": e})
    for i in failing[:10]:
        ast, d1, d2 = cases[i][1]
        found = False
        for _ in range(400):
            e1, e2 = split_interp(build(ast), rng)
            bad = oracle_case(res, ast, e1, e2, rng)
            if bad:
                res.violation("oracle", bad["problem"], bad); found = True
                break
        res.violation("corr", f"model assume differs from implementation on {build(ast)!r} with {d1}: implementation returned {canon(build(ast).assume(dict(d1)))}",
                      {"check": "Corr.check_assume", "model": ast_json(ast), "d1": {k: list(v) for k, v in d1.items()}, "failing_input_found": found})

def replay(payload):
    r = payload.get("replay", payload)
    class R: evaluations = 0
    d1 = {k: tuple(v) for k, v in r["d1"].items()}; d2 = {k: tuple(v) for k, v in r.get("d2", {}).items()}
    bad = grown_case(R, r["model"], d1, d2) if r.get("op") == "grown-dict" else oracle_case(R, r["model"], d1, d2, random.Random(0))
    print("model", build(r["model"]), "d1", d1, "d2", d2, "->", "FAILS: " + bad["problem"] if bad else "holds")
    return 1 if bad else 0
