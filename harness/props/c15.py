"""C15 — solver bridge: what a solver callable receives from AtLeast.solve / StingyConfigurator.select
(asserted polyhedron, one aligned objective vector per request) and how its answers (vector / None /
exception) are reported back as dictionaries."""
import random, json
import numpy as np
import puan, puan.ndarray as pnd, puan.logic.plog as pg
import puan.modules.configurator as cc
from common import *
from bridgeio import *
import plogio
from plogio import build, ast_json, ModelGen, is_var, leaves_of, all_nodes, plain, canon

RULE = ("validated models from the structured generator (depth 1-3, all connectives, integer leaves, sharing, explicit and generated ids) for solve(); "
        "validated StingyConfigurators (cc.Xor / cc.Any with and without defaults plus plain rules) for select(); objective / priority dictionaries over leaf ids, "
        "auxiliary (compound) ids and unknown ids; scripted solvers answering the brute-force optimum, arbitrary distinct-valued vectors, None, or raising. "
        "non-trivial = the dictionary names >= 2 column ids including an auxiliary one (solve) / names >= 1 column id (select), the polyhedron has a generated "
        "column and the solver answered at least one vector; distinct by canonical text of (model, dictionaries, flags, script)")

IMPORTS = "Puan.Bridge Puan.CorrBridge"
CAP = 40000

# ----------------------------------------------------------------------------- running the implementation
def script_fn(script):
    """script: {"kind": "opt"} | {"kind": "raise"} | {"kind": "given", "answers": [[vector|None, ov, sc], ...]}"""
    if script["kind"] == "raise":
        return "raise"
    if script["kind"] == "given":
        return [(None if s is None else list(s), ov, sc) for s, ov, sc in script["answers"]]
    def exact(P, objectives):
        bounds = [(int(v.bounds.lower), int(v.bounds.upper)) for v in P.A.variables]
        r = brute_force_answers(np.asarray(P), bounds, [np.asarray(o).tolist() for o in objectives], CAP)
        if r is None:
            raise RuntimeError("box too large for the brute-force solver")
        return r
    return exact

def observe(call):
    """run `call()` and map the outcome to ("ok", value) / ("raise", kind)"""
    try:
        return ("ok", call())
    except pnd.InfeasibleError as e:
        return ("raise", "ExInfeasible", str(e))
    except RecordingSolver.Boom as e:
        return ("raise", "ExSolver", str(e))

def pyint(x):
    return None if x is None else int(x)

def typed_weight(k, v):
    """the weight as some integer scalar type that holds it exactly (chosen from the data, so that a replay passes the same
    objects): Python int, numpy.int64 / int32 / int16 / int8, and numpy.uint8 / bool_ where the value allows"""
    types = [int, np.int64]
    if -2 ** 31 <= v < 2 ** 31: types.append(np.int32)
    if -2 ** 15 <= v < 2 ** 15: types.append(np.int16)
    if -128 <= v < 128: types.append(np.int8)
    if 0 <= v < 256: types.append(np.uint8)
    if v in (0, 1): types.append(np.bool_)
    return types[(sum(map(ord, str(k))) + abs(int(v))) % len(types)](v)

def mapping_kind(d):
    """the dictionary as some dict type (plain, OrderedDict, defaultdict(int)), chosen from its content"""
    import collections
    k = (len(d) + sum(abs(int(v)) for v in d.values())) % 6
    return collections.OrderedDict(d) if k == 1 else collections.defaultdict(int, d) if k == 2 else d

def run_solve(c):
    m = build(c["model"])
    rs = RecordingSolver(script_fn(c["script"]))
    objs = [mapping_kind(dict((k, typed_weight(k, v)) for k, v in o)) for o in c["objs"]]
    def call():
        out = m.solve(objs, solver=rs, include_virtual_variables=c["incl"])
        return [({k: int(v) for k, v in d.items()}, pyint(ov), int(sc)) for d, ov, sc in out]
    return m, objs, rs, observe(call)

def run_select(c, cfg=None):
    cfg = build(c["model"]) if cfg is None else cfg
    rs = RecordingSolver(script_fn(c["script"]))
    prios = [mapping_kind(dict((k, typed_weight(k, v)) for k, v in o)) for o in c["prios"]]
    with CompressRecorder() as cr:
        def call():
            out = list(cfg.select(*prios, solver=rs, only_leafs=c["only_leafs"]))
            if c["only_leafs"]:
                return [{k: int(v) for k, v in d.items()} for d in out]
            return [({k: int(v) for k, v in d.items()}, pyint(ov), int(sc)) for d, ov, sc in out]
        res = observe(call)
    return cfg, prios, rs, cr, res

def same_vars(a, bb):
    return [vkey(v) for v in a] == [vkey(v) for v in bb]

def scripted_answers(rs):
    """what the recording solver answered on its (single) call, as plain Python"""
    sc = rs.last
    return sc if sc == "raise" else [(None if s is None else [int(x) for x in s], pyint(ov), int(st)) for s, ov, st in sc]

# ----------------------------------------------------------------------------- direct oracle
def check_optimal(M, cols, weights, reported, kept, what):
    """the reported dictionary must be the kept part of a feasible point that maximises
    sum_j weights[j]*x_j over the integer points of the polyhedron (independent enumeration)"""
    F = feasible_points(M, [(c["lo"], c["hi"]) for c in cols], CAP)
    if F is None:
        return None
    if len(F) == 0:
        return f"{what}: a solution was reported although the polyhedron has no integer point"
    w = np.asarray(weights, dtype=np.int64)
    scores = F @ w
    best = scores.max()
    sel = np.ones(len(F), dtype=bool)
    for j, c in enumerate(cols):
        if kept[j]:
            if c["id"] not in reported:
                return f"{what}: column {c['id']!r} missing from the reported solution"
            sel &= (F[:, j] == reported[c["id"]])
    if not sel.any():
        return f"{what}: the reported solution {reported} is not (the visible part of) an integer point of the polyhedron"
    if scores[sel].max() != best:
        return f"{what}: the reported solution {reported} scores {int(scores[sel].max())} for the requested weights, the optimum is {int(best)}"
    return None

def check_model_true(m, cols, reported, what):
    if not plogio.solver_safe(m):
        return None
    env = {c["id"]: reported[c["id"]] for c in cols if not c["compound"] and c["id"] in reported}
    for l in leaves_of(m):
        if l.id not in env:
            return f"{what}: leaf {l.id!r} missing from the reported solution"
    got = m.evaluate(dict(env)).as_tuple()
    if tuple(int(x) for x in got) != (1, 1):
        return f"{what}: the model (solver-safe) evaluates to {got} on the reported solution {env}"
    return None

def oracle_solve(c, info=None):
    m, objs, rs, res = run_solve(c)
    if len(rs.calls) != 1:
        return f"the solver was called {len(rs.calls)} times"
    P, received = rs.calls[0]
    fresh = m.to_ge_polyhedron(True)
    avars = list(fresh.A.variables)
    cols = columns_of(m, avars)
    ids = [x["id"] for x in cols]
    if info is not None:   # everything observed, before any judgement: the correspondence check needs it
        info.update(cols=cols, received=[[int(x) for x in np.asarray(v).tolist()] for v in received], res=res, answers=scripted_answers(rs), objs=objs)
    if not (np.array_equal(np.asarray(P), np.asarray(fresh)) and same_vars(P.variables, fresh.variables)):
        return "the solver did not receive the model's asserted polyhedron (to_ge_polyhedron(active=True))"
    if len(received) != len(objs):
        return f"{len(received)} objective vectors for {len(objs)} objectives"
    for k, (o, vec) in enumerate(zip(objs, received)):
        vec = np.asarray(vec).tolist()
        want = [o.get(i, 0) for i in ids]
        if [int(x) for x in vec] != want:
            return f"objective {k} {o}: the solver received {vec}, the weights by column id {ids} are {want}"
    if c["script"]["kind"] == "raise":
        return None      # the property says nothing about solve() here; the behaviour is recorded by the correspondence check
    if res[0] != "ok":
        return f"solve() raised {res[1]} ({res[2]}) although the solver answered"
    answers = scripted_answers(rs)
    if len(res[1]) != len(answers):
        return f"{len(res[1])} results for {len(answers)} solver answers"
    kept = [(not x["compound"]) or (not x["gen"]) or c["incl"] for x in cols]
    for k, ((sol, ov, sc), (d, rov, rsc)) in enumerate(zip(answers, res[1])):
        if (rov, rsc) != (ov, sc):
            return f"answer {k}: objective value / status {(ov, sc)} reported as {(rov, rsc)}"
        if sol is None:
            if d != {}:
                return f"answer {k}: a None solution became {d}"
            continue
        want = {x["id"]: sol[j] for j, x in enumerate(cols) if kept[j]}
        if d != want:
            return (f"answer {k}: vector {sol} over columns {ids} (include_virtual_variables={c['incl']}) was reported as {d}, required {want}")
        if c["script"]["kind"] == "opt":
            bad = check_optimal(np.asarray(fresh), cols, [objs[k].get(i, 0) for i in ids], d, kept, f"answer {k}") \
                  or check_model_true(m, cols, d, f"answer {k}")
            if bad:
                return bad
    if c["script"]["kind"] == "opt":
        for k, (sol, ov, sc) in enumerate(answers):
            if sol is None:
                F = feasible_points(np.asarray(fresh), [(x["lo"], x["hi"]) for x in cols], CAP)
                if F is not None and len(F) > 0:
                    return f"answer {k}: exact solver found nothing although the polyhedron has integer points"
    return None

def oracle_select(c, info=None):
    cfg, prios, rs, cr, res = run_select(c)
    if len(rs.calls) != 1:
        return f"the solver was called {len(rs.calls)} times"
    P, received = rs.calls[0]
    fresh = cfg.ge_polyhedron
    avars = list(fresh.A.variables)
    cols = columns_of(cfg, avars)
    ids = [x["id"] for x in cols]
    dpv = [int(x) for x in np.asarray(fresh.default_prio_vector).tolist()]
    received = [[int(x) for x in np.asarray(v).tolist()] for v in received]
    if len(cr.calls) != 1:
        return f"priority compression ran {len(cr.calls)} times"
    stack, _, _, cout = cr.calls[0]
    if info is not None:   # everything observed, before any judgement: the correspondence check needs it
        info.update(cols=cols, dpv=dpv, stack=stack, cout=cout, received=received, res=res, answers=scripted_answers(rs), prios=prios)
    if not (np.array_equal(np.asarray(P), np.asarray(fresh)) and same_vars(P.variables, fresh.variables)
            and np.array_equal(np.asarray(P.default_prio_vector), np.asarray(fresh.default_prio_vector))):
        return "the solver did not receive the configurator's asserted polyhedron (ge_polyhedron)"
    want_stack = [[dpv, [p.get(i, 0) for i in ids]] for p in prios]
    if stack != want_stack:
        return f"priorities {prios}: the vectors handed to the compression are {stack}, aligned by column id {ids} they are {want_stack}"
    if received != [[int(x) for x in r] for r in cout]:
        return f"the solver received {received}, the compressed priorities are {cout}"
    if len(received) != len(prios):
        return f"{len(received)} objective vectors for {len(prios)} priority dictionaries"
    for k, (p, vec) in enumerate(zip(prios, received)):
        for j, i in enumerate(ids):
            w = p.get(i, 0)
            if w != 0 and (vec[j] > 0) != (w > 0):
                return f"priority {k}: column {i!r} has priority {w} but compressed weight {vec[j]}"
            if w == 0 and vec[j] >= 0:
                return f"priority {k}: column {i!r} has no priority but compressed weight {vec[j]} (defaults are negative)"
    if c["script"]["kind"] == "raise":
        if res[0] != "raise" or res[1] != "ExInfeasible":
            return f"the solver raised, select() did not surface InfeasibleError (got {res[:2]})"
        return None
    if res[0] != "ok":
        return f"select() raised {res[1]} ({res[2]}) although the solver answered"
    answers = scripted_answers(rs)
    if len(res[1]) != len(answers):
        return f"{len(res[1])} results for {len(answers)} solver answers"
    kept = [x["leaf"] if c["only_leafs"] else True for x in cols]
    for k, ((sol, ov, sc), r) in enumerate(zip(answers, res[1])):
        d = r if c["only_leafs"] else r[0]
        if not c["only_leafs"] and (r[1], r[2]) != (ov, sc):
            return f"answer {k}: objective value / status {(ov, sc)} reported as {(r[1], r[2])}"
        if sol is None:
            if d != {}:
                return f"answer {k}: a None solution became {d}"
            continue
        want = {x["id"]: sol[j] for j, x in enumerate(cols) if kept[j]}
        if d != want:
            return f"answer {k}: vector {sol} over columns {ids} (only_leafs={c['only_leafs']}) was reported as {d}, required {want}"
        if c["script"]["kind"] == "opt":
            bad = check_optimal(np.asarray(fresh), cols, received[k], d, kept, f"answer {k}") or check_model_true(cfg, cols, d, f"answer {k}")
            if bad:
                return bad
    return None

# ----------------------------------------------------------------------------- one process, shared proposition objects
def untagged_twin(ast):
    """the configurator of the same rules without any default; the rule / alternative ASTs are the SAME objects, so that with one
    build memo the two configurators share their Python proposition objects (as two configurators of one application do)"""
    return dict(ast, ch=[({k: v for k, v in r.items() if k != "default"} if isinstance(r, dict) and r.get("default") else r) for r in ast.get("ch", [])])

def subst(ast, shared):
    """the AST with every {"k": "ref"} replaced by the one `shared` AST object (build() memoises by AST object: one Python object)"""
    if not isinstance(ast, dict):
        return ast
    if ast.get("k") == "ref":
        return shared
    return dict(ast, ch=[subst(x, shared) for x in ast["ch"]]) if "ch" in ast else ast

def oracle_shared(c):
    """select() on a configurator whose proposition objects are also part of another configurator that was used before:
    the vectors the solver receives are those the same configurator built from fresh objects gives (the objective is a
    function of configurator and priorities, not of what other models did with the shared objects)"""
    memo = {}
    a1 = subst(c["first"], c.get("shared"))
    a2 = untagged_twin(a1) if c.get("second") is None else subst(c["second"], c.get("shared"))
    first = build(a1, memo)
    second = build(a2, memo)
    order = [first, second] if c["first_used_first"] else [second, first]
    got = []
    for cfg in order:
        _, _, rs, _, r = run_select(dict(c, model=None), cfg)
        got.append(([[int(x) for x in np.asarray(v).tolist()] for v in rs.calls[0][1]] if len(rs.calls) == 1 else None, r))
    got = dict(zip(("first", "second") if c["first_used_first"] else ("second", "first"), got))
    for name, ast in (("first", a1), ("second", a2)):
        _, _, rs, _, r = run_select(dict(c, model=json.loads(json.dumps(ast_json(ast)))))
        want = ([[int(x) for x in np.asarray(v).tolist()] for v in rs.calls[0][1]] if len(rs.calls) == 1 else None, r)
        if got[name] != want:
            return (f"the {name} of two configurators that share proposition objects hands the solver {got[name][0]} (result {str(got[name][1])[:200]}), "
                    f"the same configurator built from fresh objects hands it {want[0]} (result {str(want[1])[:200]})")
    return None

def run_shared_twin(res, rng, n):
    """a defaulted choice, an untagged look-alike of its non-default branch elsewhere in the same configurator, and a second
    configurator that uses that look-alike object too"""
    for _ in range(n):
        names = rng.sample(list("abcdefg"), rng.randint(3, 4))
        kind = rng.choice(["CcAny", "CcAny", "CcXor"])
        dflt = rng.choice(names)
        rest = [x for x in names if x != dflt]
        shared = {"k": "Any" if kind == "CcAny" else rng.choice(["Any", "Xor"]), "ch": [{"k": "str", "id": x} for x in rest], "id": None}
        ref = {"k": "ref"}
        user = rng.choice([{"k": "Imply", "ch": [{"k": "str", "id": "x"}, ref], "id": rng.choice(["I", None])},
                           {"k": "Any", "ch": [ref, {"k": "str", "id": "x"}], "id": rng.choice(["U", None])},
                           {"k": "AtMost", "v": 1, "ch": [ref, {"k": "str", "id": "x"}, {"k": "str", "id": "y"}], "id": "M"}])
        first = {"k": "Stingy", "id": "first", "ch": [{"k": kind, "ch": [{"k": "str", "id": x} for x in names], "default": [dflt], "id": rng.choice([None, "Ch"])}, user]}
        if rng.random() < 0.5:
            first["ch"].reverse()
        second = {"k": "Stingy", "id": "second", "ch": [{"k": "Any", "ch": [ref, {"k": "All", "ch": [{"k": "str", "id": "z1"}, {"k": "str", "id": "z2"}], "id": None}], "id": None}]}
        ids = names + ["x", "y", "z1", "z2"]
        dicts = [gen_objective(rng, ids, ["zz"], wide=False) for _ in range(rng.choice([1, 2]))] + [{}]
        c = {"first": first, "second": second, "shared": shared, "first_used_first": rng.random() < 0.8, "only_leafs": rng.random() < 0.5,
             "prios": [[[k, v] for k, v in d.items()] for d in dicts], "script": {"kind": "raise"}}
        res.count("shared_object_twin_pattern")
        try:
            bad = oracle_shared(c)
        except Exception as e:
            import traceback
            bad = f"raised {type(e).__name__}: {e} {traceback.format_exc()[-400:]}"
        res.evaluations += 1
        if bad:
            res.violation("oracle", f"shared: {bad}; case {json.dumps(c, ensure_ascii=False)[:500]}", {"op": "shared", "case": c})

def oracle_edited(c):
    """one configurator object is used, an item's range is changed in place (the model is an object: an application narrows a
    quantity), and it is used again: the solver then receives the polyhedron of the configurator as it is now"""
    cfg = build(json.loads(json.dumps(c["cfg"])))
    rs0 = RecordingSolver(script_fn({"kind": "raise"}))
    observe(lambda: list(cfg.select({}, solver=rs0)))
    for x in all_nodes(cfg):
        if is_var(x) and x.id == c["item"]:
            x.bounds = puan.Bounds(*c["new"])
    rs = RecordingSolver(script_fn({"kind": "raise"}))
    observe(lambda: list(cfg.select({}, solver=rs)))
    want_ast = json.loads(json.dumps(c["cfg"]).replace(json.dumps({"k": "var", "id": c["item"], "b": c["old"]}), json.dumps({"k": "var", "id": c["item"], "b": c["new"]})))
    fresh = build(want_ast).ge_polyhedron
    if len(rs.calls) != 1:
        return f"the solver was called {len(rs.calls)} times"
    P = rs.calls[0][0]
    got = (np.asarray(P).tolist(), [(v.id, v.bounds.as_tuple()) for v in P.variables])
    want = (np.asarray(fresh).tolist(), [(v.id, v.bounds.as_tuple()) for v in fresh.variables])
    if got != want:
        return f"after item {c['item']} was narrowed from {c['old']} to {c['new']} on the object, the solver received {str(got)[:300]}; the configurator as it is now has {str(want)[:300]}"
    return None

def run_edited(res, rng, n):
    for _ in range(n):
        old, new = rng.choice([([0, 4], [1, 3]), ([0, 3], [1, 2]), ([0, 4], [0, 3]), ([1, 5], [2, 4]), ([0, 2], [1, 1])])
        q = {"k": "var", "id": "n", "b": old}
        rules = [{"k": "AtLeast", "v": rng.choice([1, 2]), "s": None, "ch": [q] + ([{"k": "str", "id": "a"}] if rng.random() < 0.5 else []), "id": "Q"},
                 {"k": rng.choice(["Any", "CcAny"]), "ch": [{"k": "str", "id": "a"}, {"k": "str", "id": "b"}], "id": "R", "default": None}]
        if rules[1]["k"] == "CcAny": rules[1]["default"] = ["a"]
        else: del rules[1]["default"]
        c = {"cfg": {"k": "Stingy", "ch": rules, "id": rng.choice(["cfg", None])}, "item": "n", "old": old, "new": new}
        res.count("used_edited_in_place_used_again"); res.evaluations += 1
        try:
            bad = oracle_edited(c)
        except Exception as e:
            bad = f"raised {type(e).__name__}: {str(e)[:200]}"
        if bad:
            res.violation("oracle", f"edited: {bad}", {"op": "edited", "case": c})

def run_shared(res, models, rng):
    for ast, m, P, cols in models:
        ids = [x["id"] for x in cols]
        if not any(isinstance(r, dict) and r.get("default") for r in ast.get("ch", [])):
            res.count("shared_skipped_no_default"); continue
        nobj = rng.choice([1, 1, 2])
        dicts = [gen_objective(rng, ids, ["zz"], wide=False) for _ in range(nobj)] + [{}]
        c = {"first": ast_json(ast), "second": None, "shared": None, "first_used_first": rng.random() < 0.7, "only_leafs": rng.random() < 0.3,
             "prios": [[[k, v] for k, v in d.items()] for d in dicts], "script": gen_script(rng, cols, len(dicts), False)}
        # ast_json expands sharing; untagged_twin(c["first"]) reuses its rule objects, which is what the memo keys on
        res.count("shared_object_pairs")
        try:
            bad = oracle_shared(c)
        except Exception as e:
            import traceback
            bad = f"raised {type(e).__name__}: {e} {traceback.format_exc()[-400:]}"
        res.evaluations += 1
        if bad:
            res.violation("oracle", f"shared: {bad}; configurator {m!r}", {"op": "shared", "case": c})

# ----------------------------------------------------------------------------- generators
def distinct_vector(rng, cols, in_bounds):
    if in_bounds:
        return [rng.randint(c["lo"], c["hi"]) for c in cols]
    vals = rng.sample(range(-9, 40), len(cols)) if len(cols) <= 49 else [rng.randint(-99, 99) for _ in cols]
    return vals

def gen_script(rng, cols, nobj, exact_ok):
    r = rng.random()
    if exact_ok and r < 0.4:
        return {"kind": "opt"}
    if r < 0.5:
        return {"kind": "raise"}
    ans = []
    for _ in range(nobj):
        if rng.random() < 0.25:
            ans.append([None, rng.choice([None, 0]), rng.choice([1, 2, 3])])
        else:
            ans.append([distinct_vector(rng, cols, rng.random() < 0.3), rng.choice([None, 0, 7, -3, 100]), rng.choice([5, 6, 0])])
    return {"kind": "given", "answers": ans}

def gen_solve_models(rng, n, res):
    out, tries = [], 0
    while len(out) < n and tries < n * 8:
        tries += 1
        g = ModelGen(random.Random(rng.getrandbits(64)), big=0.03)
        ast = g.prop(rng.choice([1, 2, 2, 3, 3]) if rng.random() < 0.9 else 0)
        if rng.random() < 0.5:      # a conjunction / disjunction of several rules: more columns, more auxiliary ids
            more = [g.prop(rng.choice([0, 1, 2])) for _ in range(rng.randint(1, 2))]
            ast = {"k": rng.choice(["All", "All", "Any", "AtLeast"]), "v": 1, "s": None, "ch": [ast] + more, "id": g.fresh()}
        try:
            m = build(ast)
            if is_var(m) or m.errors() or not plain(m):
                res.count("solve_skipped_invalid"); continue
            P = m.to_ge_polyhedron(True)
            cols = columns_of(m, list(P.A.variables))
        except Exception as e:
            res.count("solve_build_error:" + type(e).__name__); continue
        out.append((ast, m, P, cols))
    return out

def gen_select_models(rng, n, res):
    out, tries = [], 0
    while len(out) < n and tries < n * 8:
        tries += 1
        ast = gen_config_ast(random.Random(rng.getrandbits(64)))
        try:
            cfg = build(ast)
            if cfg.errors() or not plain(cfg):
                res.count("select_skipped_invalid"); continue
            P = cfg.ge_polyhedron
            cols = columns_of(cfg, list(P.A.variables))
        except Exception as e:
            res.count("select_build_error:" + type(e).__name__); continue
        out.append((ast, cfg, P, cols))
    return out

def box_size(cols):
    n = 1
    for c in cols:
        n *= c["hi"] - c["lo"] + 1
        if n > CAP:
            return None
    return n

# ----------------------------------------------------------------------------- terms
def term_solve(c, info):
    def t(it):
        r = info["res"]
        return (f"({cols_t(info['cols'], it)}, {lst(dict_t(o, it) for o in info['objs'])}, {b(c['incl'])}, {answers_t(info['answers'])}, "
                f"({zm(info['received'])}, {results_t(r, it)}))")
    return t

def zm3(x):
    return lst(zm(y) for y in x)

def term_select(c, info):
    def t(it):
        r = info["res"]
        tab = f"[({zm3(info['stack'])}, {zm(info['cout'])})]"
        head = f"{cols_t(info['cols'], it)}, {zl(info['dpv'])}, {lst(dict_t(o, it) for o in info['prios'])}, {tab}, {answers_t(info['answers'])}"
        if c["only_leafs"]:
            return f"({head}, ({zm(info['received'])}, {dicts_t(r, it)}))"
        return f"({head}, ({zm3(info['stack'])}, {zm(info['received'])}, {results_t(r, it)}))"
    return t

SOLVE_T = "list column * list dict * bool * outcome (list answer) * (list (list Z) * outcome (list (dict * option Z * Z)))"
SELECT_T = "list column * list Z * list dict * ctable * outcome (list answer) * (list (list (list Z)) * list (list Z) * outcome (list (dict * option Z * Z)))"
LEAFS_T = "list column * list Z * list dict * ctable * outcome (list answer) * (list (list Z) * outcome (list dict))"

# ----------------------------------------------------------------------------- driver
def classify(res, kind, c, cols, dicts):
    ids = [x["id"] for x in cols]
    aux = {x["id"] for x in cols if x["compound"]}
    res.count(f"{kind}_script_{c['script']['kind']}")
    res.count(f"{kind}_ncols_{min(len(cols) // 4 * 4, 16)}+")
    if any(x["gen"] for x in cols): res.count(f"{kind}_has_generated_column")
    if any(x["compound"] and not x["gen"] for x in cols): res.count(f"{kind}_has_explicit_compound_column")
    if any((x["lo"], x["hi"]) != (0, 1) for x in cols): res.count(f"{kind}_integer_column")
    named = [k for d in dicts for k in d if k in ids]
    unknown = [k for d in dicts for k in d if k not in ids]
    if unknown: res.count(f"{kind}_unknown_ids_in_dict")
    if any(k in aux for k in named): res.count(f"{kind}_auxiliary_id_in_dict")
    if not dicts: res.count(f"{kind}_no_dictionaries")
    vec = c["script"]["kind"] == "opt" or (c["script"]["kind"] == "given" and any(a[0] is not None for a in c["script"]["answers"]))
    if c["script"]["kind"] == "given" and any(a[0] is None for a in c["script"]["answers"]): res.count(f"{kind}_none_answer")
    if kind == "solve":
        res.count("solve_incl_virtual" if c["incl"] else "solve_hide_virtual")
        nt = any(len({k for k in d if k in ids}) >= 2 and any(k in aux for k in d) for d in dicts)
    else:
        res.count("select_only_leafs" if c["only_leafs"] else "select_all_columns")
        nt = bool(named)
    if nt and vec and any(x["gen"] for x in cols):
        res.nt(kind + json.dumps(c, sort_keys=True, ensure_ascii=False)); res.count(f"nontrivial_{kind}")

def run_stream(res, kind, models, rng, per_model, oracle, term, ctype, check):
    cases = []
    for ast, m, P, cols in models:
        ids = [x["id"] for x in cols]
        extra = ["zz", "top", m.id, "a_", ""]
        exact_ok = box_size(cols) is not None
        for _ in range(per_model):
            nobj = rng.choice([0, 1, 1, 1, 2, 2, 3])
            dicts = [gen_objective(rng, ids, extra, wide=rng.random() < 0.2) for _ in range(nobj)]
            c = {"model": ast_json(ast), "script": gen_script(rng, cols, nobj, exact_ok)}
            if kind == "solve":
                c["objs"] = [[[k, v] for k, v in d.items()] for d in dicts]
                c["incl"] = rng.random() < 0.5
            else:
                c["prios"] = [[[k, v] for k, v in d.items()] for d in dicts]
                c["only_leafs"] = rng.random() < 0.4
            classify(res, kind, c, cols, dicts)
            info = {}
            try:
                bad = oracle(c, info)
            except Exception as e:
                import traceback
                bad = f"raised {type(e).__name__}: {e} {traceback.format_exc()[-400:]}"
            res.evaluations += 1
            if bad:
                res.violation("oracle", f"{kind}: {bad}; model {m!r}", {"op": kind, "case": c})
            if "res" not in info:
                continue
            if info.get("res") is not None and info["res"][0] == "ok" and c["script"]["kind"] == "opt":
                res.count(f"{kind}_exact_checked")
            cases.append((term(c, info), c))
            if len(res.samples) < 6 and len(cases) % 97 == 1:
                res.sample({"op": kind, "model": repr(m), "dictionaries": dicts, "script": c["script"]["kind"], "result": str(info["res"])[:300]})
    for name, ct, ck, sel in ([("solve", ctype, check, lambda c: True)] if kind == "solve" else
                              [("select", SELECT_T, "check_select", lambda c: not c["only_leafs"]), ("select_leafs", LEAFS_T, "check_select_leafs", lambda c: c["only_leafs"])]):
        sub = [x for x in cases if sel(x[1])]
        n, failing, errs = run_case_shards("C15", name, "", ct, ck, sub, imports=IMPORTS, shard=120)
        res.corr_cases += n
        res.evaluations += n
        for e in errs:
            res.violation("corr", f"correspondence shard failed ({name}): " + e, {"check": "CorrBridge." + ck, "error": e})
        for i in failing[:10]:
            c = sub[i][1]
            found = escalate(res, kind, c, oracle, rng)
            res.violation("corr", f"{name}: model and implementation disagree on {json.dumps(c, ensure_ascii=False)[:600]}",
                          {"check": "CorrBridge." + ck, "op": kind, "case": c, "failing_input_found": found})

def escalate(res, kind, c, oracle, rng):
    """search around a disagreeing case: same model, every script kind, both flags, fresh dictionaries"""
    m = build(c["model"])
    P = m.to_ge_polyhedron(True) if kind == "solve" else m.ge_polyhedron
    cols = columns_of(m, list(P.A.variables))
    ids = [x["id"] for x in cols]
    for t in range(300):
        nobj = rng.choice([1, 2, 3])
        dicts = [gen_objective(rng, ids, ["zz"], wide=True) for _ in range(nobj)]
        c2 = {"model": c["model"], "script": gen_script(rng, cols, nobj, box_size(cols) is not None)}
        if kind == "solve":
            c2["objs"] = [[[k, v] for k, v in d.items()] for d in dicts]; c2["incl"] = bool(t % 2)
        else:
            c2["prios"] = [[[k, v] for k, v in d.items()] for d in dicts]; c2["only_leafs"] = bool(t % 2)
        try:
            bad = oracle(c2)
        except Exception as e:
            bad = f"raised {type(e).__name__}: {e}"
        if bad:
            res.violation("oracle", f"{kind}: {bad}", {"op": kind, "case": c2})
            return True
    return False

FIXED_SOLVE = [
    {"k": "All", "id": "top", "ch": [{"k": "Any", "id": None, "ch": [{"k": "str", "id": "a"}, {"k": "str", "id": "b"}]}, {"k": "str", "id": "c"}]},
    {"k": "Imply", "id": "R", "ch": [{"k": "All", "id": "L", "ch": [{"k": "str", "id": "a"}, {"k": "var", "id": "n", "b": [-1, 1]}]}, {"k": "Xor", "id": None, "ch": [{"k": "str", "id": "b"}, {"k": "str", "id": "c"}]}]},
]
FIXED_SELECT = [
    {"k": "Stingy", "id": "cfg", "ch": [{"k": "CcXor", "id": "X", "default": ["a"], "ch": [{"k": "str", "id": "a"}, {"k": "str", "id": "b"}]},
                                       {"k": "CcAny", "id": None, "default": None, "ch": [{"k": "str", "id": "c"}, {"k": "var", "id": "n", "b": [0, 2]}]}]},
]

def exhaustive_small(res):
    """fixed small models: EVERY answer vector over {0,1} (resp. the declared bounds) x both flags, decoded and
    checked by the direct oracle; plus the exact script for every single-id objective with weight in {-1, 1}"""
    import itertools
    n = 0
    for kind, asts, oracle in (("solve", FIXED_SOLVE, oracle_solve), ("select", FIXED_SELECT, oracle_select)):
        for ast in asts:
            m = build(ast)
            P = m.to_ge_polyhedron(True) if kind == "solve" else m.ge_polyhedron
            cols = columns_of(m, list(P.A.variables))
            ids = [x["id"] for x in cols]
            vectors = list(itertools.product(*[range(x["lo"], x["hi"] + 1) for x in cols]))
            for flag in (False, True):
                for chunk in range(0, len(vectors), 3):
                    vs = vectors[chunk:chunk + 3]
                    c = {"model": ast, "script": {"kind": "given", "answers": [[list(v), None, 6] for v in vs]}}
                    dicts = [[[ids[(chunk + t) % len(ids)], 1 + t]] for t in range(len(vs))]
                    if kind == "solve":
                        c["objs"], c["incl"] = dicts, flag
                    else:
                        c["prios"], c["only_leafs"] = dicts, flag
                    n += len(vs)
                    bad = oracle(c)
                    if bad:
                        res.violation("oracle", f"{kind}: {bad}", {"op": kind, "case": c})
                        return n
                for i in ids:
                    for w in (-1, 1):
                        c = {"model": ast, "script": {"kind": "opt"}}
                        if kind == "solve":
                            c["objs"], c["incl"] = [[[i, w]]], flag
                        else:
                            c["prios"], c["only_leafs"] = [[[i, w]]], flag
                        n += 1
                        bad = oracle(c)
                        if bad:
                            res.violation("oracle", f"{kind}: {bad}", {"op": kind, "case": c})
                            return n
    return n

def run(res, tier, seed):
    rng = random.Random(seed * 1000003 + 15)
    res.rule = RULE
    quick = tier == "quick"
    sm = gen_solve_models(rng, 140 if quick else 1600, res)
    run_stream(res, "solve", sm, rng, 3, oracle_solve, term_solve, SOLVE_T, "check_solve")
    cm = gen_select_models(rng, 90 if quick else 1000, res)
    # configurators over ONE item (any number of helper columns): the smallest answer dictionaries
    srng = random.Random(seed * 7949 + 15)
    for _ in range(8 if quick else 80):
        x = srng.choice(["x", "item", "0"])
        lf = lambda: {"k": "str", "id": x}
        rules = [srng.choice([{"k": "Any", "ch": [lf()], "id": srng.choice(["R", None])}, {"k": "AtLeast", "v": 1, "s": None, "ch": [lf()], "id": "R"},
                              {"k": "All", "ch": [{"k": "Any", "ch": [lf()], "id": "In"}], "id": srng.choice(["R", None])}, {"k": "AtMost", "v": 1, "ch": [lf()], "id": "R"}])]
        if srng.random() < 0.4:
            rules.append({"k": "Not", "ch": [{"k": "AtLeast", "v": 2, "s": None, "ch": [lf()], "id": "Two"}], "id": None})
        ast1 = {"k": "Stingy", "ch": rules, "id": srng.choice(["cfg", None])}
        try:
            c1 = build(ast1)
            if c1.errors() or not plain(c1):
                continue
            P1 = c1.ge_polyhedron
            cm.append((ast1, c1, P1, columns_of(c1, list(P1.A.variables)))); res.count("single_item_configurators")
        except Exception as e:
            res.count("single_item_build_error:" + type(e).__name__)
    run_stream(res, "select", cm, rng, 3, oracle_select, term_select, None, None)
    run_shared(res, cm, random.Random(seed * 7919 + 15))
    run_shared_twin(res, random.Random(seed * 7927 + 15), 40 if quick else 400)
    run_edited(res, random.Random(seed * 7933 + 15), 20 if quick else 200)
    if not quick:
        k = exhaustive_small(res)
        res.evaluations += k
        res.count("exhaustive_small_cases", k)
        res.notes.append("thorough: for 2 fixed models (solve) and 1 fixed configurator (select) every answer vector within the column bounds x both flags was decoded and checked, and every single-id objective with weight -1/+1 was solved exactly")
    res.notes.append("solve(): an exception raised by the solver callable propagates unchanged (it is not wrapped); select(): it surfaces as InfeasibleError. "
                     "puan.variable keys in objectives are not generated (string ids only). The built-in solver (solver=None) is not exercised by this check.")

def replay(payload):
    r = payload.get("replay", payload)
    op, c = r["op"], r["case"]
    bad = oracle_edited(c) if op == "edited" else oracle_shared(c) if op == "shared" else (oracle_solve if op == "solve" else oracle_select)(c)
    print(op, json.dumps(c, ensure_ascii=False)[:2000])
    print("property holds on this input" if not bad else "FAILS: " + bad)
    return 1 if bad else 0
