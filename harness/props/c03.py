"""C03 — evaluation computes the arithmetic truth function of every node."""
import random, json
import puan, puan.logic.plog as pg
from common import *
from plogio import *

RULE = ("validated models from the structured generator (depth 0-3, all connectives, explicit signs, integer leaves, "
        "shared sub-propositions, some sub-propositions pre-fixed by constant own bounds) x total leaf interpretations in mixed "
        "value forms (int, numpy int, (v,v) tuple, Bounds) x optional overrides of sub-proposition ids; non-trivial = the model "
        "has a negatively signed node whose children sum is non-zero under the interpretation; distinct by (model, interpretation)")

def total_interp(m, rng, p_over=0.25):
    env = random_env(leaves_of(m), rng)
    if leaves_of(m) and rng.random() < 0.25:
        # a value outside the declared bounds of a leaf (the API takes it as given, in every value form): it counts as it is
        l = rng.choice(leaves_of(m))
        lo, hi = int(l.bounds.lower), int(l.bounds.upper)
        if abs(lo) < 2 ** 20 and abs(hi) < 2 ** 20:
            env[l.id] = rng.choice([hi + 1, hi + 2, lo - 1, hi + rng.randint(1, 4)])
    d = {k: (v, v) for k, v in env.items()}
    if rng.random() < p_over:
        for x in all_nodes(m):
            if not is_var(x) and rng.random() < 0.3:
                d[x.id] = rng.choice([(0, 0), (1, 1), (0, 1)])
    # a sub-proposition pre-fixed by its declaration and overridden by the interpretation (the override wins)
    for x in all_nodes(m):
        if not is_var(x) and x.bounds.lower == x.bounds.upper and rng.random() < 0.5:
            v = 1 - int(x.bounds.lower)
            d[x.id] = rng.choice([(v, v), (v, v), (0, 1)])
    return env, d

def neg_nonzero(p, d, env):
    for x in all_nodes(p):
        if not is_var(x) and int(x.sign) == -1 and sum(ref_eval_d(c, d, env) for c in x.propositions) != 0:
            return True
    return False

def oracle_case(res, ast, d, env, rng):
    """property statement on the implementation; returns None or a violation payload.  An exception of the implementation on
    this (legal) input is a failure of the property with this input as replay."""
    try:
        return _oracle_case(res, ast, d, env, rng)
    except Exception as e:
        return {"op": "evaluate_propositions", "model": ast_json(ast), "interpretation": {k: list(v) for k, v in d.items()},
                "env": env, "problem": f"evaluate / evaluate_propositions raised {type(e).__name__}: {str(e)[:160]}"}

def _oracle_case(res, ast, d, env, rng):
    m = build(ast)                       # fresh object: evaluate() may mutate (finding D2, property C09)
    ref = {}
    top = ref_eval_d(m, d, env, ref)
    try:
        got = build(ast).evaluate_propositions(forms(d, rng))
        build(ast).evaluate(forms(d, rng))
    except Exception as e:
        return {"op": "evaluate_propositions", "model": ast_json(ast), "interpretation": {k: list(v) for k, v in d.items()},
                "env": env, "problem": f"evaluate / evaluate_propositions raised {type(e).__name__}: {str(e)[:160]}"}
    res.evaluations += 1
    want_ids = reachable_ids(m, d)
    bad = None
    if set(got) != want_ids:
        bad = f"reported ids {sorted(got)} != reachable ids {sorted(want_ids)}"
    else:
        for k, bnd in got.items():
            vals = ref[k]
            if len(vals) != 1 or bnd.as_tuple() != (list(vals)[0],) * 2:
                bad = f"node {k}: reported {bnd.as_tuple()}, arithmetic truth function gives {sorted(vals)}"
                break
    if bad is None and rng.random() < 0.3:
        # the documented `out` callback only post-processes every entry
        viaout = build(ast).evaluate_propositions(forms(d, rng), out=lambda b: (int(b.lower), int(b.upper), "x"))
        if {k: v[:2] for k, v in viaout.items()} != {k: b.as_tuple() for k, b in got.items()} or any(v[2:] != ("x",) for v in viaout.values()):
            bad = f"evaluate_propositions(out=f) is not f applied to every entry of evaluate_propositions(): {viaout} vs {got}"
    if bad is None:
        ev = build(ast).evaluate(forms(d, rng)).as_tuple()
        if ev != (top, top) or ev != got[m.id].as_tuple():
            bad = f"evaluate() = {ev}, top entry {got[m.id].as_tuple()}, truth function {top}"
    if bad:
        return {"op": "evaluate_propositions", "model": ast_json(ast), "interpretation": {k: list(v) for k, v in d.items()},
                "env": env, "problem": bad}
    # the SAME model object and the SAME dictionary object, updated in place between two calls (leaf-only dictionaries:
    # naming a sub-proposition id is the known leak D2 of property C09): the second answer must follow the update
    if not any(k in compound_ids(m) for k in d) and env:
        mm = build(ast)
        dd = {k: int(v[0]) for k, v in d.items()}
        mm.evaluate_propositions(dd); mm.evaluate(dd)
        k0 = sorted(env)[rng.randrange(len(env))]
        lf = [l for l in leaves_of(mm) if l.id == k0][0]
        alt = [v for v in (int(lf.bounds.lower), int(lf.bounds.upper)) if v != dd[k0]]
        if alt:
            dd[k0] = alt[0]
            env2 = dict(env); env2[k0] = alt[0]
            ref2 = {}
            top2 = ref_eval_d(mm, {k: (v, v) for k, v in dd.items()}, env2, ref2)      # the interpretation as given (a value may differ from a declared constant)
            got2 = mm.evaluate_propositions(dd)
            res.evaluations += 1
            wrong = [(k, b.as_tuple(), sorted(ref2[k])) for k, b in got2.items() if b.as_tuple() != (list(ref2[k])[0],) * 2]
            ev2 = mm.evaluate(dd).as_tuple()
            if wrong or ev2 != (top2, top2):
                return {"op": "evaluate_propositions-reused-dict", "model": ast_json(ast), "interpretation": {k: [v, v] for k, v in env.items()},
                        "env": env, "update": [k0, alt[0]],
                        "problem": f"after updating the interpretation dictionary in place ({k0} := {alt[0]}) a second evaluate_propositions on the same model reports {wrong[:3]} / evaluate() = {ev2}, truth function gives {top2}"}
    return None

def run(res, tier, seed):
    rng = random.Random(seed * 1000003 + 3)
    res.rule = RULE
    n_models = 350 if tier == "quick" else 4000
    per = 2 if tier == "quick" else 3
    models = gen_valid(rng, n_models, res, constvar=0.15, empty=0.06, wide=0.03)
    cases = []
    for ast, m in models:
        res.count("depth_%d" % depth_of(m))
        if any((not is_var(x)) and len(x.propositions) == 0 for x in all_nodes(m)):
            res.count("has_childless_compound")     # documented as not allowed, accepted by constructors and errors(): sum 0
        for _ in range(per):
            env, d = total_interp(m, rng)
            if any(k in compound_ids(m) for k in d):
                res.count("with_override")
            if any((not is_var(x)) and x.bounds.lower == x.bounds.upper and x.id in d for x in all_nodes(m)):
                res.count("prefixed_compound_overridden")
            if neg_nonzero(m, d, env):
                res.nt(canon(m) + json.dumps(sorted(d.items()))); res.count("negative_node_nonzero_sum")
            bad = oracle_case(res, ast, d, env, rng)
            if bad:
                res.violation("oracle", "evaluate_propositions disagrees with the arithmetic truth function: " + bad["problem"] + f" on {m!r}", bad)
            # correspondence: implementation output on a fresh object vs model
            fresh = build(ast)
            dump_in = lambda it, fresh=fresh: dump(fresh, it)
            mm = build(ast)
            try:
                obs = {k: v.as_tuple() for k, v in mm.evaluate_propositions(forms(d, rng)).items()}
            except Exception as e:
                res.violation("oracle", f"evaluate_propositions raised {type(e).__name__}: {str(e)[:160]} on {m!r} with {d}",
                              {"op": "evaluate_propositions", "model": ast_json(ast), "interpretation": {k: list(v) for k, v in d.items()}, "env": env, "problem": f"raised {type(e).__name__}"})
                continue
            top = obs[mm.id]
            cases.append((lambda it, f=dump_in, d=d, obs=obs, top=top: f"({dict_term(d, it)}, {f(it)}, {dict_term(obs, it)}, ({z(top[0])}, {z(top[1])}))", (ast, d, env)))
            res.sample({"model": repr(m), "interpretation": {k: list(v) for k, v in d.items()}, "result": {k: list(v) for k, v in obs.items()}})
    # sums and thresholds beyond 2^53 (all well inside 64 bits): integers that a double cannot tell apart
    brng = random.Random(seed * 7951 + 3)
    for _ in range(30 if tier == "quick" else 300):
        Mb = brng.choice([2 ** 53, 2 ** 53, 2 ** 60, 3 * 2 ** 59])
        kids = [{"k": "var", "id": "x", "b": [0, Mb + 16]}, {"k": "var", "id": "y", "b": [0, 1]}] + ([{"k": "str", "id": "z"}] if brng.random() < 0.5 else [])
        thr = Mb + brng.randint(0, 6)
        node = brng.choice([{"k": "AtLeast", "v": thr, "s": None, "ch": kids, "id": "A"}, {"k": "AtMost", "v": thr, "ch": kids, "id": "A"},
                            {"k": "AtLeast", "v": -thr, "s": -1, "ch": kids, "id": "A"}])
        ast = node if brng.random() < 0.6 else {"k": brng.choice(["Any", "All"]), "ch": [node, {"k": "str", "id": "w"}], "id": "T"}
        env = {"x": Mb + brng.randint(-2, 8), "y": brng.randint(0, 1), "z": brng.randint(0, 1), "w": brng.randint(0, 1)}
        try:
            m = build(ast)
            if m.errors():
                continue
        except Exception:
            continue
        env = {l.id: env[l.id] for l in leaves_of(m)}
        d = {k: (v, v) for k, v in env.items()}
        res.count("beyond_2^53")
        bad = oracle_case(res, ast, d, env, brng)
        if bad:
            res.violation("oracle", "evaluate_propositions disagrees with the arithmetic truth function: " + bad["problem"] + f" on {m!r}", bad)
    n, failing, errs = run_case_shards("C03", "evalprops", "", "interp * prop * list (ident * (Z * Z)) * (Z * Z)", "check_evalprops", cases)
    res.corr_cases += n; res.evaluations += n
    for e in errs:
        res.violation("corr", "correspondence shard failed: " + e, {"check": "Corr.check_evalprops", "error": e})
    for i in failing[:10]:
        ast, d, env = cases[i][1]
        found = False
        for _ in range(300):                      # escalate around the disagreeing model
            env2, d2 = total_interp(build(ast), rng, p_over=0.5)
            bad = oracle_case(res, ast, d2, env2, rng)
            if bad:
                res.violation("oracle", "evaluate_propositions disagrees with the arithmetic truth function: " + bad["problem"], bad); found = True
                break
        res.violation("corr", f"model evaluate_propositions differs from implementation on {build(ast)!r} with {d}",
                      {"check": "Corr.check_evalprops", "model": ast_json(ast), "interpretation": {k: list(v) for k, v in d.items()}, "failing_input_found": found})

def replay(payload):
    r = payload.get("replay", payload)
    ast = r["model"]; d = {k: tuple(v) for k, v in r["interpretation"].items()}
    class R: evaluations = 0
    bad = None
    for sd in range(80):          # the reused-dictionary step picks a leaf, forms() a value form and a mapping type at random
        bad = bad or oracle_case(R, ast, d, r["env"], random.Random(sd))
    print("model", build(ast), "interpretation", d, "->", "FAILS: " + bad["problem"] if bad else "holds")
    return 1 if bad else 0
