"""C08 — reduce() preserves meaning and removes every fixed variable."""
import random, json
import puan, puan.logic.plog as pg
from common import *
from plogio import *

RULE = ("validated models (depth 0-3, all connectives, integer leaves incl. degenerate lo=hi, sharing, pre-fixed sub-propositions), "
        "directly and after a random assume() (leaf points / ranges / sub-proposition overrides) x interpretations of the free leaves "
        "(exhaustive when <= 600 points in the thorough tier, random otherwise); non-trivial = reduce() drops a constant child under a "
        "negatively signed node or derives a new constant; distinct by canonical text of the model handed to reduce(). History stream: reduce(), then a call that fixes a named sub-proposition on the same object, then reduce() again - the second answer is checked against the object as it is then")

def free_leaves(a):
    return [l for l in leaves_of(a) if l.bounds.lower != l.bounds.upper]

@guarded(lambda e, *a, **k: (f"evaluate raised {type(e).__name__}: {str(e)[:160]}", {}))
def oracle_case(res, a, r, rng, n_env, cap=0):
    """a: (possibly assumed) model, r = a.reduce()"""
    fl = free_leaves(a)
    envs = all_envs(fl, cap) if cap else None
    if envs is None:
        envs = [random_env(fl, rng) for _ in range(n_env)]
    for env in envs:
        res.evaluations += 1
        want = a.evaluate(dict(env)).as_tuple() if not is_var(a) else a.bounds.as_tuple()
        got = r.evaluate(dict(env)).as_tuple() if not is_var(r) else r.evaluate(dict(env)).as_tuple()
        if want[0] != want[1] or got != want:
            return f"unreduced evaluates to {want}, reduced to {got} under {env}", env
    nodes = all_nodes(r)
    consts = [x.id for x in nodes if x.bounds.lower == x.bounds.upper]
    if consts and not (is_var(r) and len(nodes) == 1):
        return f"reduced model still contains constants {consts}: {canon(r)}", {}
    return None, None

def build_like(obj):
    """the object as it is now (dump() reads the live object; kept for symmetry with the fresh builds)"""
    return obj

def run(res, tier, seed):
    rng = random.Random(seed * 1000003 + 8)
    res.rule = RULE
    n_models = 400 if tier == "quick" else 5000
    models = gen_valid(rng, n_models, res, constvar=0.08, int_leaves=0.45, wide=0.03)
    # an unnamed sub-proposition that a fixed leaf reduces to ONE free boolean which is also a direct child of its parent
    # (or comes up from a second such child), under a counting parent: the leaf must keep being counted once per occurrence
    for _ in range(60 if tier == "quick" else 700):
        p_, q_, z_ = rng.sample(list("abcdefg"), 3)
        fixed = {"k": "var", "id": q_, "b": [rng.choice([0, 1])] * 2}
        def sub():
            k = rng.choice(["Any", "All", "AtLeast"])
            r = {"k": k, "ch": [{"k": "str", "id": p_}, dict(fixed)], "id": None}
            if k == "AtLeast": r["v"] = 1; r["s"] = None
            return r
        ch = [sub(), {"k": "str", "id": p_}] if rng.random() < 0.6 else [sub(), {"k": "Any", "ch": [{"k": "str", "id": p_}, dict(fixed), {"k": "var", "id": "h", "b": [0, 0]}], "id": None}]
        if rng.random() < 0.6: ch.append({"k": "str", "id": z_})
        k = rng.choice(["All", "AtLeast", "AtLeast", "AtMost", "Xor"])
        top = {"k": k, "ch": ch, "id": rng.choice(["R", None])}
        if k in ("AtLeast", "AtMost"): top["v"] = rng.randint(1, len(ch))
        if k == "AtLeast": top["s"] = None
        try:
            m = build(top)
            if not is_var(m):
                models.append((top, m)); res.count("absorbed_leaf_pattern" + ("_rejected_by_validation" if m.errors() else ""))
        except Exception as e:
            res.count("absorbed_leaf_error:" + type(e).__name__)
    cases = []
    for ast, m in models:
        for variant in range(2):
            d = None
            if variant == 1:
                d = rand_interp(m, rng, p_leaf=rng.choice([0.2, 0.5]), p_comp=rng.choice([0, 0.2]), point=0.8)
                a = build(ast).assume(forms(d, rng))
            else:
                a = build(ast)
            if is_var(a):
                res.count("assumed_to_constant"); continue
            before = canon(a)
            try:
                r = a.reduce()
            except Exception as e:
                res.violation("oracle", f"reduce() of {a!r} raised {type(e).__name__}: {str(e)[:160]}",
                              {"op": "reduce", "model": ast_json(ast), "d": None if d is None else {k: list(v) for k, v in d.items()}, "env": {}, "problem": f"reduce() raised {type(e).__name__}"})
                continue
            if canon(a) != before:
                res.violation("oracle", f"reduce() changed its receiver: {before} -> {canon(a)}", {"op": "reduce-mutates", "model": ast_json(ast), "d": d})
            res.count("reduced_to_variable" if is_var(r) else "reduced_to_model")
            dropped_neg = any((not is_var(x)) and int(x.sign) == -1 and any(c.bounds.lower == c.bounds.upper for c in x.propositions) for x in all_nodes(a))
            if dropped_neg:
                res.count("constant_under_negative_node"); res.nt(canon(a))
            elif is_var(r):
                res.nt(canon(a))
            problem, env = oracle_case(res, a, r, rng, 8 if tier == "quick" else 25, cap=0 if tier == "quick" else 600)
            if problem:
                res.violation("oracle", f"reduce() of {a!r}: {problem}", {"op": "reduce", "model": ast_json(ast), "d": None if d is None else {k: list(v) for k, v in d.items()}, "env": env, "problem": problem})
            cases.append((lambda it, a=a, r=r: f"({dump(a, it)}, {dump(r, it)})", (ast, d)))
            res.sample({"model": canon(a), "reduced": canon(r)})
        # call history on ONE object: reduce(), then a call that fixes a named sub-proposition on that object
        # (assume() / evaluate() naming its id re-bind the node's variable in place), then reduce() again: the second
        # answer has to be the reduction of the object AS IT IS NOW
        named = [x for x in all_nodes(m) if not is_var(x) and x.id != m.id and not x.generated_id and x.bounds.lower != x.bounds.upper]
        if named and len(cases) % 2 == 0:
            obj = build(ast)
            tgt = rng.choice(named).id; c = rng.choice([0, 1])
            try:
                r1 = obj.reduce()
                before_r1 = canon(r1)
                if rng.random() < 0.5:
                    obj.assume({tgt: c})
                else:
                    obj.evaluate({tgt: c})
                if canon(r1) != before_r1:
                    res.violation("oracle", f"the reduced model handed out by reduce() changed when the unreduced model was used afterwards (a call fixing {tgt}={c}): {before_r1} -> {canon(r1)}",
                                  {"op": "history-alias", "model": ast_json(ast), "fix": {tgt: c}, "env": {}, "problem": "reduce() result shares mutable nodes with its receiver"})
                if not is_var(obj):
                    r2 = obj.reduce()
                    res.count("history_reduce_fix_reduce")
                    if any(x.id == tgt and x.bounds.lower == x.bounds.upper for x in all_nodes(obj)):
                        res.count("history_object_was_changed_in_place")
                    problem, env = oracle_case(res, obj, r2, rng, 8 if tier == "quick" else 25, cap=0 if tier == "quick" else 600)
                    if problem:
                        res.violation("oracle", f"reduce() after reduce() and a call fixing {tgt}={c} on the same object {canon(obj)}: {problem}",
                                      {"op": "history", "model": ast_json(ast), "fix": {tgt: c}, "env": env, "problem": problem})
                    cases.append((lambda it, a=build_like(obj), r=r2: f"({dump(a, it)}, {dump(r, it)})", (ast, None)))
            except Exception as e:
                res.count("history_error:" + type(e).__name__)
    n, failing, errs = run_case_shards("C08", "reduce", "", "prop * prop", "check_reduce", cases)
    res.corr_cases += n; res.evaluations += n
    for e in errs:
        res.violation("corr", "correspondence shard failed: " + e, {"check": "Corr.check_reduce", "error": e})
    for i in failing[:10]:
        ast, d = cases[i][1]
        a = build(ast) if d is None else build(ast).assume(dict(d))
        r = a.reduce()
        problem, env = oracle_case(res, a, r, rng, 3000, cap=20000)
        if problem:
            res.violation("oracle", f"reduce() of {a!r}: {problem}", {"op": "reduce", "model": ast_json(ast), "d": None if d is None else {k: list(v) for k, v in d.items()}, "env": env, "problem": problem})
        res.violation("corr", f"model reduce differs from implementation on {canon(a)}: implementation returned {canon(r)}",
                      {"check": "Corr.check_reduce", "model": ast_json(ast), "d": None if d is None else {k: list(v) for k, v in d.items()}, "failing_input_found": bool(problem)})

def replay(payload):
    r0 = payload.get("replay", payload)
    a = build(r0["model"])
    if r0.get("op") == "history-alias":
        r1 = a.reduce(); b0 = canon(r1)
        a.assume({k: v for k, v in r0["fix"].items()})
        print("reduced before", b0, "after the call on the unreduced model", canon(r1))
        return 0 if canon(r1) == b0 else 1
    if r0.get("op") == "history":
        a.reduce()
        a.assume({k: v for k, v in r0["fix"].items()})
    if r0.get("d"):
        a = a.assume({k: tuple(v) for k, v in r0["d"].items()})
    try:
        r = a.reduce()
    except Exception as e:
        print("model", canon(a), "reduce() raised", type(e).__name__, e)
        return 1
    class R: evaluations = 0
    if r0.get("env"):
        want = a.evaluate(dict(r0["env"])).as_tuple(); got = r.evaluate(dict(r0["env"])).as_tuple()
        print("model", canon(a), "reduced", canon(r), "env", r0["env"], "unreduced", want, "reduced", got)
        return 0 if want == got and want[0] == want[1] else 1
    problem, _ = oracle_case(R, a, r, random.Random(0), 2000, cap=20000)
    print("model", canon(a), "reduced", canon(r), "->", "FAILS: " + problem if problem else "holds")
    return 1 if problem else 0
