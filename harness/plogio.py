import os
"""Proposition models: AST generator, builder (AST -> puan objects), dumper (puan objects ->
Coq `prop` terms), the id oracle and an independent reference evaluator."""
import random, itertools, json
import numpy as np
import puan, puan.logic.plog as pg
import puan.modules.configurator as cc
from common import q, z, b, lst, opt, pair

# ----------------------------------------------------------------------------- id oracle
class IdOracle:
    """Wraps AtLeast._id_generator from outside and records (child ids, value, sign arg) -> id."""
    def __init__(self):
        self.table = {}
        self._orig = None
    def __enter__(self):
        self._orig = pg.AtLeast.__dict__["_id_generator"]
        orig = self._orig
        tab = self.table
        def rec(propositions, value, sign, prefix="VAR"):
            props = list(propositions)
            r = orig(props, value, sign, prefix)
            ids = [x.id for x in props if issubclass(x.__class__, puan.variable)] + \
                  [x.variable.id for x in props if not issubclass(x.__class__, puan.variable)]
            tab[(tuple(ids), int(value), None if sign is None else int(sign))] = r
            return r
        pg.AtLeast._id_generator = rec
        return self
    def __exit__(self, *a):
        pg.AtLeast._id_generator = self._orig
    def term(self, it):
        return lst(f"({lst(it.s(i) for i in ids)}, {z(v)}, {opt(s, z)}, {it.s(r)})" for (ids, v, s), r in self.table.items())

# ----------------------------------------------------------------------------- dump
CLS = {pg.AtLeast: "KAtLeast", pg.AtMost: "KAtMost", pg.All: "KAll", pg.Any: "KAny", pg.Imply: "KImply",
       pg.Xor: "KXor", pg.ExactlyOne: "KXor", pg.XNor: "KXNor", cc.Any: "KCcAny", cc.Xor: "KCcXor",
       cc.StingyConfigurator: "KStingy"}

def is_var(p):
    return issubclass(p.__class__, puan.variable)

def meta_term(p, it):
    k = CLS.get(type(p), "KAtLeast")
    prio = getattr(p, "prio", None)
    default = [(d.id, int(d.bounds.lower), int(d.bounds.upper)) for d in (getattr(p, "default", None) or [])]
    cond = 0
    if isinstance(p, pg.Imply) and hasattr(p, "condition"):
        for i, c in enumerate(p.propositions):
            if c is p.condition:
                cond = i
    if k == "KAtLeast" and prio is None and not default and cond == 0:
        return "m0"
    return f"(mkMeta {k} {opt(prio, z)} {lst(f'({it.s(i)}, ({z(l)}, {z(h)}))' for i, l, h in default)} {cond}%nat)"

def dump(p, it):
    """puan object -> Coq term of type prop (children in the object's own order)."""
    if is_var(p):
        return f"(Var {it.s(p.id)} {z(p.bounds.lower)} {z(p.bounds.upper)})"
    return (f"(Node {meta_term(p, it)} {it.s(p.id)} {b(p.generated_id)} {z(p.bounds.lower)} {z(p.bounds.upper)} "
            f"{z(int(p.sign))} {z(p.value)} {lst(dump(c, it) for c in p.propositions)})")

def canon(p):
    """Canonical text of a proposition (for distinct counting)."""
    if is_var(p):
        return f"{p.id}[{p.bounds.lower},{p.bounds.upper}]"
    return f"{type(p).__name__}:{p.id if not p.generated_id else '~'}[{p.bounds.lower},{p.bounds.upper}]{int(p.sign):+d}>={p.value}(" + ",".join(canon(c) for c in p.propositions) + ")"

def interp_term(d, it):
    """{id: (lo,hi)} -> Coq interp"""
    return lst(f"({it.s(k)}, ({z(v[0])}, {z(v[1])}))" for k, v in d.items())

def env_term(d, it):
    return lst(f"({it.s(k)}, {z(v)})" for k, v in d.items())

# ----------------------------------------------------------------------------- AST + builder
# AST nodes are dicts: {"k": kind, "ch": [...], "id": str|None, "v": int, "s": int|None, "b": [lo,hi]}
# leaves: {"k": "var", "id": ..., "b": [lo,hi]} or {"k": "str", "id": ...} (bare string argument)

def build(ast, memo=None):
    memo = {} if memo is None else memo
    key = id(ast)
    if key in memo:
        return memo[key]
    k = ast["k"]
    if k == "str":
        r = ast["id"]
    elif k == "var":
        # puan.variable(id, bounds[, dtype]) in one of its documented spellings (tuple / list / numpy array / puan.Bounds, with or
        # without the matching explicit dtype), chosen from the data: the declared box is the same
        from polyio import declare
        r = declare(ast["id"], ast["b"], len(str(ast["id"])))
    else:
        ch = [build(c, memo) for c in ast.get("ch", [])]
        var = ast.get("id")
        if var is not None and ast.get("vb") is not None:
            var = puan.variable(var, tuple(ast["vb"]))
        form = ast.get("form")
        if form == "gen":
            ch = (x for x in ch)              # one-shot iterators are legal `propositions` arguments
        elif form == "map":
            ch = map(lambda x: x, ch)
        elif form == "tuple":
            ch = tuple(ch)
        via = ast.get("via")
        if via == "from_list" and k in ("All", "Any", "Xor", "XNor", "CcAny", "CcXor"):
            # the documented list constructors: X.from_list(propositions, variable=...[, default=...])
            cls = {"All": pg.All, "Any": pg.Any, "Xor": pg.Xor, "XNor": pg.XNor, "CcAny": cc.Any, "CcXor": cc.Xor}[k]
            r = cls.from_list(list(ch), variable=var, default=build_default(ast)) if k.startswith("Cc") else cls.from_list(list(ch), variable=var)
        elif k == "AtLeast":
            r = pg.AtLeast(ast["v"], ch, variable=var, sign=ast.get("s"))
        elif k == "AtMost":
            r = pg.AtMost(ast["v"], ch, variable=var)
        elif k == "All":
            r = pg.All(*ch, variable=var)
        elif k == "Any":
            r = pg.Any(*ch, variable=var)
        elif k == "Xor":
            r = pg.Xor(*ch, variable=var)
        elif k == "XNor":
            r = pg.XNor(*ch, variable=var)
        elif k == "Imply":
            r = pg.Imply(ch[0], ch[1], variable=var)
        elif k == "Not":
            r = pg.Not(ch[0])
        elif k == "CcAny":
            r = cc.Any(*ch, default=build_default(ast), variable=var)
        elif k == "CcXor":
            r = cc.Xor(*ch, default=build_default(ast), variable=var)
        elif k == "Stingy":
            r = cc.StingyConfigurator(*ch, id=var)
        else:
            raise ValueError(k)
    memo[key] = r
    return r

def build_default(ast):
    d = ast.get("default")
    if d is None:
        return None
    r = [x if isinstance(x, str) else puan.variable(x["id"], tuple(x["b"])) for x in d]
    # `default` is documented as a list; any iterable is taken: a tuple, or a single-pass iterator / generator (key "dform")
    f = ast.get("dform")
    return tuple(r) if f == "tuple" else iter(r) if f == "iter" else (x for x in r) if f == "gen" else r

def ast_json(ast):
    """JSON-serialisable copy of an AST (sharing is expanded)."""
    if ast["k"] in ("str", "var"):
        return dict(ast)
    d = {k: v for k, v in ast.items() if k != "ch"}
    d["ch"] = [ast_json(c) for c in ast.get("ch", [])]
    return d

def ast_size(ast):
    return 1 + sum(ast_size(c) for c in ast.get("ch", []))

def ast_depth(ast):
    return 0 if ast["k"] in ("str", "var") else 1 + max([ast_depth(c) for c in ast.get("ch", [])] + [0])

KINDS = ["AtLeast", "AtLeastS", "AtMost", "All", "Any", "Xor", "XNor", "Imply", "Not"]

class ModelGen:
    """Structured generator of proposition ASTs over a small leaf alphabet."""
    def __init__(self, rng, nleaf=None, int_leaves=0.35, big=0.05, share=0.15, explicit=0.6, kinds=None, prefix="", strleaf=0.3, constvar=0.0, huge=0.2, empty=0.0):
        self.rng = rng
        self.empty = empty            # share of compounds without any sub-proposition (All(), AtLeast(k, []): legal constructor input)
        self.constvar = constvar
        self.share = share
        self.explicit = explicit
        self.kinds = kinds or KINDS
        self.prefix = prefix
        self.strleaf = strleaf
        self.leaves = {}
        n = nleaf or rng.randint(3, 6)
        # mostly plain letters; sometimes ids that are numeric-looking, non-ASCII, contain blanks / dashes, or are
        # prefixes of each other (puan ids are arbitrary strings)
        alphabet = list("abcdefgh") if rng.random() < 0.85 else ["0", "10", "1", "\u00e9", "x-y", "A b", "x", "_"]
        for i in range(n):
            nm = prefix + alphabet[i]
            r = rng.random()
            if r < big:
                lo = rng.choice([-32768, -1000, -5, 0]); hi = rng.choice([32767, 1000, 7])
                if rng.random() < huge:      # far beyond the default 16-bit range (sums of such bounds exceed 32 bits)
                    lo = rng.choice([0, -1_500_000_000, -5]); hi = rng.choice([1_500_000_000, 2_000_000_000])
                self.leaves[nm] = [lo, hi]
            elif r < int_leaves:
                lo = rng.randint(-4, 1); hi = lo + rng.randint(0, 5)
                self.leaves[nm] = [lo, hi]
            else:
                self.leaves[nm] = [0, 1]
        self.cnt = 0
        self.pool = []
    def leaf(self, nm=None):
        nm = nm or self.rng.choice(list(self.leaves))
        bnd = self.leaves[nm]
        if bnd == [0, 1] and self.rng.random() < self.strleaf:
            return {"k": "str", "id": nm}
        return {"k": "var", "id": nm, "b": list(bnd)}
    def fresh(self):
        # explicit compound ids of varied case so that, in id order, sub-propositions interleave with the
        # lower-case leaves (generated ids "VAR..." and upper-case ids always sort before them)
        self.cnt += 1
        # (now and then an explicit id that merely LOOKS generated: it starts with "VAR")
        stem = self.rng.choice(["N", "N", "b", "k", "zz", "Q", "e", "N", "b", "k", "zz", "Q", "e", "VAR_", "VARIANT"])
        return f"{self.prefix}{stem}{self.cnt}" if self.rng.random() < self.explicit else None
    def finish(self, r):
        """optionally pre-fix an explicitly named compound by constant own bounds"""
        if self.constvar and r.get("id") is not None and r["k"] != "Not" and self.rng.random() < self.constvar:
            r["vb"] = self.rng.choice([[0, 0], [1, 1]])
        self.pool.append(r)
        return r
    def children(self, depth, kmin=1, kmax=3):
        rng = self.rng
        if self.empty and kmin == 1 and kmax == 3 and rng.random() < self.empty:
            return []
        k = rng.randint(kmin, kmax)
        out, used = [], set()
        for _ in range(k):
            if depth > 0 and rng.random() < 0.5:
                if self.pool and rng.random() < self.share:
                    c = rng.choice(self.pool)
                    if id(c) in used:
                        continue
                    used.add(id(c))
                    out.append(c)
                else:
                    c = self.prop(depth - 1)
                    used.add(id(c))
                    out.append(c)
            else:
                nm = rng.choice(list(self.leaves))
                if nm in used:
                    continue
                used.add(nm)
                out.append(self.leaf(nm))
        if not out:
            out.append(self.leaf())
        return out
    def prop(self, depth):
        rng = self.rng
        kind = rng.choice(self.kinds)
        v = self.fresh()
        argform = rng.choice([None, None, None, "gen", "map", "tuple"])
        if kind == "AtLeast":
            r = {"k": "AtLeast", "v": rng.randint(-3, 4), "s": None, "ch": self.children(depth), "id": v, "form": argform}
        elif kind == "AtLeastS":
            r = {"k": "AtLeast", "v": rng.randint(-3, 4), "s": rng.choice([-1, 1]), "ch": self.children(depth), "id": v, "form": argform}
        elif kind == "AtMost":
            r = {"k": "AtMost", "v": rng.randint(-2, 4), "ch": self.children(depth), "id": v, "form": argform}
        elif kind in ("All", "Any", "Xor", "XNor"):
            r = {"k": kind, "ch": self.children(depth), "id": v}
            if rng.random() < 0.15:
                r["via"] = "from_list"
        elif kind == "Imply":
            r = {"k": "Imply", "ch": [self.children(depth, 1, 1)[0], self.children(depth, 1, 1)[0]], "id": v}
        elif kind == "Not":
            r = {"k": "Not", "ch": [self.children(depth, 1, 1)[0]], "id": None}
        return self.finish(r)

# ----------------------------------------------------------------------------- reference semantics
def ref_eval(p, env):
    """independent arithmetic truth function; env: leaf id -> int"""
    if is_var(p):
        return env[p.id]
    s = sum(ref_eval(c, env) for c in p.propositions)
    return 1 if int(p.sign) * s >= p.value else 0

def ref_eval_all(p, env, out):
    if is_var(p):
        out[p.id] = env[p.id]
        return env[p.id]
    s = sum(ref_eval_all(c, env, out) for c in p.propositions)
    r = 1 if int(p.sign) * s >= p.value else 0
    out[p.id] = r
    return r

def all_nodes(p, acc=None):
    acc = [] if acc is None else acc
    acc.append(p)
    if not is_var(p):
        for c in p.propositions:
            all_nodes(c, acc)
    return acc

def leaves_of(p):
    d = {}
    for x in all_nodes(p):
        if is_var(x):
            d.setdefault(x.id, x)
    return [d[k] for k in sorted(d)]

def compound_ids(p):
    return {x.id for x in all_nodes(p) if not is_var(x)}

def plain(p, allow_const=False):
    """no compound with constant own bounds (unless allow_const); leaf ids disjoint from compound ids;
    one leaf definition per id; one definition (object) per compound id"""
    nodes = all_nodes(p)
    cdef = {}
    for x in nodes:
        if not is_var(x) and cdef.setdefault(x.id, canon(x)) != canon(x):
            return False
    cids = {x.id for x in nodes if not is_var(x)}
    lb = {}
    for x in nodes:
        if is_var(x):
            if x.id in cids:
                return False
            if lb.setdefault(x.id, x.bounds.as_tuple()) != x.bounds.as_tuple():
                return False
        elif x.bounds.lower == x.bounds.upper and not allow_const:
            return False
    return True

def solver_safe(p):
    if is_var(p):
        return True
    if int(p.sign) == -1 and any(not is_var(c) for c in p.propositions):
        return False
    return all(solver_safe(c) for c in p.propositions)

def random_env(leaves, rng, corners=0.3):
    env = {}
    for l in leaves:
        lo, hi = int(l.bounds.lower), int(l.bounds.upper)
        r = rng.random()
        env[l.id] = lo if r < corners / 2 else hi if r < corners else rng.randint(lo, hi)
    return env

def all_envs(leaves, cap=4096):
    rngs = [range(int(l.bounds.lower), int(l.bounds.upper) + 1) for l in leaves]
    n = 1
    for r in rngs:
        n *= len(r)
        if n > cap:
            return None
    return [dict(zip([l.id for l in leaves], vals)) for vals in itertools.product(*rngs)]

def has_mixed_positive(p):
    """a positive node with both atoms and compounds (negate's mixed branch)"""
    for x in all_nodes(p):
        if not is_var(x) and int(x.sign) == 1:
            na = sum(1 for c in x.propositions if is_var(c))
            if 0 < na < len(x.propositions):
                return True
    return False

def depth_of(p):
    return 0 if is_var(p) else 1 + max([depth_of(c) for c in p.propositions] + [0])


# ----------------------------------------------------------------------------- interpretations
def norm_val(v):
    """int / (lo,hi) / Bounds -> (lo,hi)"""
    if isinstance(v, puan.Bounds):
        return (int(v.lower), int(v.upper))
    if isinstance(v, (tuple, list)):
        return (int(v[0]), int(v[1]))
    return (int(v), int(v))

def norm_interp(d):
    return {k: norm_val(v) for k, v in d.items()}

def form(b, rng):
    """a (lo,hi) pair in one of the value forms the API accepts"""
    r = rng.random()
    if b[0] == b[1] and r < 0.5:
        if r < 0.36:
            return int(b[0])
        v = int(b[0])       # a numpy integer scalar of some width that holds the value
        types = [np.int64] + ([np.int32] if -2 ** 31 <= v < 2 ** 31 else []) + ([np.int16] if -2 ** 15 <= v < 2 ** 15 else []) \
            + ([np.int8] if -128 <= v < 128 else []) + ([np.uint8] if 0 <= v < 256 else [])
        return types[int(r * 1000) % len(types)](v)
    return tuple(b) if r < 0.8 else puan.Bounds(b[0], b[1])

def typed_env(env):
    """the same assignment with about half of the values as the narrowest signed numpy integer type that holds them
    (which keys: decided by the data, so that a replay passes the same objects)"""
    def narrow(v):
        for t, lim in ((np.int8, 2 ** 7), (np.int16, 2 ** 15), (np.int32, 2 ** 31)):
            if -lim <= v < lim:
                return t(v)
        return np.int64(v)
    return {k: narrow(int(v)) if (len(str(k)) + abs(int(v))) % 2 == 0 else int(v) for k, v in env.items()}

def forms(d, rng):
    r = {k: form(v, rng) for k, v in d.items()}
    # the interpretation is "a dict": any dict will do, also the standard subclasses (some answer for missing keys)
    q = rng.random()
    if q < 0.06:
        import collections
        return collections.defaultdict(int, r)
    if q < 0.10:
        import collections
        return collections.Counter(r)
    if q < 0.14:
        import collections
        return collections.OrderedDict(r)
    return r

def ref_eval_d(p, d, env, out=None):
    """independent reference for Sem.eval_d: d normalised {id:(lo,hi)}, env leaf values.
    A node (or leaf) whose bounds after d are constant takes that constant."""
    if is_var(p):
        b = d.get(p.id, p.bounds.as_tuple())
        r = b[0] if b[0] == b[1] else env[p.id]
    else:
        b = d.get(p.id, p.bounds.as_tuple())
        if b[0] == b[1]:
            r = b[0]
        else:
            s = sum(ref_eval_d(c, d, env, out) for c in p.propositions)
            r = 1 if int(p.sign) * s >= p.value else 0
    if out is not None:
        out.setdefault(p.id, set()).add(int(r))
    return int(r)

def reachable_ids(p, d):
    """ids that evaluate_propositions reports for a TOTAL interpretation: nodes not below a compound that
    is pre-fixed by its declaration or named by the interpretation (a named compound whose bounds end up
    constant is replaced by its bare variable, so its children are not reported)"""
    out = set()
    def go(x):
        out.add(x.id)
        if not is_var(x):
            b = d.get(x.id, x.bounds.as_tuple())
            if b[0] != b[1]:
                for c in x.propositions:
                    if not is_var(c) and c.id in d:
                        out.add(c.id)
                    else:
                        go(c)
    go(p)
    return out

def wide_ast(rng):
    """a node over dozens of leaves (a package of forty options), alone or next to a small sub-proposition, under an optional parent"""
    n = rng.randint(24, 44)
    leaves = [{"k": "str", "id": "w%02d" % i} if rng.random() < 0.8 else {"k": "var", "id": "w%02d" % i, "b": [0, 1] if rng.random() < 0.6 else [rng.randint(-2, 0), rng.randint(1, 3)]} for i in range(n)]
    if rng.random() < 0.4:
        leaves.insert(rng.randrange(n), {"k": rng.choice(["Any", "All", "AtMost"]), "v": 1, "ch": [{"k": "str", "id": "p"}, {"k": "str", "id": "q"}], "id": rng.choice(["S", None])})
    kind = rng.choice(["AtLeast", "AtMost", "All", "Any", "Xor", "AtLeast"])
    node = {"k": kind, "v": rng.choice([1, 2, n // 2, n - 1, n]), "s": None, "ch": leaves, "id": rng.choice(["Wide", None])}
    r = rng.random()
    if r < 0.25:
        return {"k": "Imply", "ch": [{"k": "str", "id": "c"}, node], "id": rng.choice(["I", None])}
    if r < 0.4:
        return {"k": "Not", "ch": [node], "id": None}
    return node

def gen_valid(rng, n, res, depth_max=3, tries_factor=6, want=lambda m: True, wide=0.0, **kw):
    """n validated, plain (single definitions, no by-id leaf references) models as (ast, model)"""
    out, tries = [], 0
    wrng = random.Random(rng.getrandbits(32)) if wide else None      # its own stream: the other models stay what they were
    while len(out) < n and tries < n * tries_factor:
        tries += 1
        g = ModelGen(random.Random(rng.getrandbits(64)), **kw)
        ast = g.prop(rng.randint(0, depth_max))
        if wide and wrng.random() < wide:
            ast = wide_ast(wrng); res.count("wide_node_models")
        try:
            m = build(ast)
            if is_var(m) or m.errors() or not plain(m, allow_const=True) or not want(m):
                res.count("skipped_invalid")
                continue
        except Exception as e:
            res.count("build_error:" + type(e).__name__)
            continue
        out.append((ast, m))
    return out

def rand_interp(m, rng, p_leaf=0.6, p_comp=0.0, point=0.7):
    """random partial interpretation: leaves get points or sub-intervals inside their bounds,
    compounds (with probability p_comp) get 0, 1 or (0,1)"""
    d = {}
    for l in leaves_of(m):
        if rng.random() < p_leaf:
            lo, hi = int(l.bounds.lower), int(l.bounds.upper)
            if rng.random() < point:
                v = rng.choice([lo, hi, rng.randint(lo, hi)])
                d[l.id] = (v, v)
            else:
                a = rng.randint(lo, hi); bb = rng.randint(a, hi)
                d[l.id] = (a, bb)
    if p_comp:
        for x in all_nodes(m):
            if not is_var(x) and rng.random() < p_comp:
                d[x.id] = rng.choice([(0, 0), (1, 1), (0, 1)])
    return d

def completion(m, d, rng):
    """a leaf environment inside the intervals d (or the declaration) allows"""
    env = {}
    for l in leaves_of(m):
        lo, hi = d.get(l.id, l.bounds.as_tuple())
        env[l.id] = rng.choice([int(lo), int(hi), rng.randint(int(lo), int(hi))])
    return env

def dict_term(d, it):
    return lst(f"({it.s(k)}, ({z(v[0])}, {z(v[1])}))" for k, v in d.items())


# ----------------------------------------------------------------------------- constructor trees (Cons.v `form`)
def oid_term(ast, it):
    if ast.get("id") is None:
        return "None"
    vb = ast.get("vb") or [0, 1]
    return f"(Some ({it.s(ast['id'])}, ({z(vb[0])}, {z(vb[1])})))"

def chain(children):
    """the order in which the Python constructors chain their arguments: non-str first, then str"""
    return [c for c in children if c["k"] != "str"] + [c for c in children if c["k"] == "str"]

def dflt_term(ast, it):
    d = ast.get("default") or []
    out = []
    for x in d:
        if isinstance(x, str):
            out.append(f"({it.s(x)}, (0, 1))")
        else:
            out.append(f"({it.s(x['id'])}, ({z(x['b'][0])}, {z(x['b'][1])}))")
    return lst(out)

def form_term(ast, it):
    k = ast["k"]
    if k == "str":
        return f"(FLeaf {it.s(ast['id'])} 0 1)"
    if k == "var":
        return f"(FLeaf {it.s(ast['id'])} {z(ast['b'][0])} {z(ast['b'][1])})"
    ch = ast.get("ch", [])
    if k == "Imply":
        return f"(FImply {oid_term(ast, it)} {form_term(ch[0], it)} {form_term(ch[1], it)})"
    if k == "Not":
        return f"(FNot {form_term(ch[0], it)})"
    args = lst(form_term(c, it) for c in chain(ch))
    if k == "AtLeast":
        return f"(FAtLeast {oid_term(ast, it)} {z(ast['v'])} {opt(ast.get('s'), z)} {args})"
    if k == "AtMost":
        return f"(FAtMost {oid_term(ast, it)} {z(ast['v'])} {args})"
    if k in ("All", "Any", "Xor", "XNor"):
        return f"(F{k} {oid_term(ast, it)} {args})"
    if k in ("CcAny", "CcXor"):
        return f"(F{k} {oid_term(ast, it)} {dflt_term(ast, it)} {args})"
    if k == "Stingy":
        return f"(FStingy {oid_term(ast, it)} {args})"
    raise ValueError(k)

def ast_sem(ast, env):
    """independent documented truth function of a constructor tree over 0/1 leaves"""
    k = ast["k"]
    if k in ("str", "var"):
        return env[ast["id"]]
    vals = [ast_sem(c, env) for c in ast.get("ch", [])]
    n = sum(vals)
    if k == "AtLeast":
        s = ast.get("s")
        if s is None:
            s = 1 if ast["v"] > 0 else -1
        return int(s * n >= ast["v"])
    if k == "AtMost": return int(n <= ast["v"])
    if k in ("All", "Stingy"): return int(all(vals))
    if k in ("Any", "CcAny"): return int(any(vals))
    if k in ("Xor", "CcXor"): return int(n == 1)
    if k == "XNor": return int(n != 1)
    if k == "Imply": return int((not vals[0]) or vals[1])
    if k == "Not": return int(not vals[0])
    raise ValueError(k)


# ----------------------------------------------------------------------------- configurators
class ConfigGen:
    """configurator ASTs: StingyConfigurator over rules built from cc.Any / cc.Xor (with and without defaults),
    plain Any/Xor/AtMost/All/AtLeast and Imply rules, over boolean items"""
    def __init__(self, rng, nleaf=None, explicit=0.6):
        self.rng = rng
        self.items = list("abcdefgh")[: (nleaf or rng.randint(4, 7))]
        self.cnt = 0
        self.explicit = explicit
        # now and then one item is an amount, not a yes/no item: an integer variable with the same bounds wherever it occurs
        self.amount = {rng.choice(self.items): rng.choice([[0, 2], [0, 3], [1, 3]])} if rng.random() < 0.25 else {}
    def fresh(self, force=False):
        self.cnt += 1
        stem = "R" if self.rng.random() < 0.9 else "VARpk"          # an explicit id may start like a generated one
        return f"{stem}{self.cnt}" if (force or self.rng.random() < self.explicit) else None
    def leaf(self, nm):
        if nm in self.amount:
            return {"k": "var", "id": nm, "b": list(self.amount[nm])}
        return {"k": "str", "id": nm} if self.rng.random() < 0.6 else {"k": "var", "id": nm, "b": [0, 1]}
    def leaves(self, kmin=2, kmax=4):
        k = self.rng.randint(kmin, min(kmax, len(self.items)))
        return [self.leaf(n) for n in self.rng.sample(self.items, k)]
    def simple(self, force_id=False):
        rng = self.rng
        kind = rng.choice(["CcAny", "CcAny", "CcXor", "CcXor", "Any", "Xor", "AtMost", "All", "AtLeast"])
        ch = self.leaves(1 if kind in ("All", "AtLeast") else 2)
        nested = False
        if kind == "CcAny" and rng.random() < 0.3:
            # a choice among choices: a defaulted cc.Xor / cc.Any as one of the operands of a (mostly defaulted) cc.Any
            used = {c["id"] for c in ch}
            free = [n for n in self.items if n not in used]
            if len(free) >= 2:
                ich = [self.leaf(n) for n in rng.sample(free, 2)]
                inner = {"k": rng.choice(["CcXor", "CcAny"]), "ch": ich, "id": self.fresh(), "default": [rng.choice(ich)["id"]]}
                ch = ch + [inner]; nested = True
        r = {"k": kind, "ch": ch, "id": self.fresh(force_id)}
        if kind in ("CcAny", "CcXor", "Any", "Xor", "All") and rng.random() < 0.15:
            r["via"] = "from_list"
        if kind in ("CcAny", "CcXor") and not nested and rng.random() < 0.15:
            # alternatives that are sub-propositions: a plain group with a generated id and / or a named package; the default
            # names one of THEM (by id), an item that is not among the alternatives, or nothing
            used = {c["id"] for c in ch}
            free = [n for n in self.items if n not in used]
            if len(free) >= 2:
                grp = {"k": rng.choice(["Any", "All"]), "ch": [self.leaf(n) for n in free[:2]], "id": None if rng.random() < 0.6 else self.fresh(True)}
                alts = [grp] + (ch[:1] if rng.random() < 0.6 else [{"k": "All", "ch": ch[:2], "id": self.fresh(True)}])
                rng.shuffle(alts)
                r["ch"] = alts
                named = [a["id"] for a in alts if a.get("id") is not None and a["k"] not in ("str", "var")]
                r["default"] = rng.choice([[rng.choice(named)] if named else ["zz"], ["zz"], [rng.choice(self.items)], None])
                if r["default"] is None: del r["default"]
                return r
        if kind in ("CcAny", "CcXor"):
            q = rng.random() if not nested else rng.uniform(0.12, 0.7)
            if q < 0.12 and len(ch) >= 3:
                r["default"] = [c["id"] for c in rng.sample([c for c in ch if c["k"] in ("str", "var")], 2)]          # a default LIST: only the first entry counts
            elif q < 0.65:
                d = rng.choice([c for c in ch if c["k"] in ("str", "var")])["id"]
                r["default"] = [d if rng.random() < 0.7 else {"id": d, "b": [0, 1]}]
            elif q < 0.75:
                r["default"] = [rng.choice(self.items)]
            elif q < 0.85:
                r["default"] = []
        if kind == "AtMost":
            r["v"] = rng.randint(1, 2)
        if kind == "AtLeast":
            r["v"] = rng.randint(1, 2); r["s"] = None
        return r
    def rule(self, force_id=False):
        rng = self.rng
        if rng.random() < 0.08:
            # an anonymous All directly containing another anonymous All (a package of packages)
            inner = {"k": "All", "ch": self.leaves(2, 2), "id": None}
            return {"k": "All", "ch": [inner, self.simple() if rng.random() < 0.5 else self.leaf(rng.choice(self.items))], "id": None}
        if rng.random() < 0.25:
            cond = self.leaf(rng.choice(self.items)) if rng.random() < 0.5 else {"k": rng.choice(["All", "Any"]), "ch": self.leaves(1, 3), "id": None}
            cons = self.simple() if rng.random() < 0.7 else self.leaf(rng.choice(self.items))
            return {"k": "Imply", "ch": [cond, cons], "id": self.fresh(force_id)}
        return self.simple(force_id)
    def config(self, nrules=None, cid="auto"):
        n = nrules if nrules is not None else self.rng.choice([0, 1, 1, 2, 2, 3, 4])
        rules = [self.rule() for _ in range(n)]
        if self.rng.random() < 0.3:
            # bare items as direct children of the configurator (given by name or as a variable); rule ids R<n> / VAR... sort
            # before lower-case item names, upper-case / digit names sort between and before them; decimal names of
            # different lengths ("9", "10", "100") sort as text, next to names that start with a digit ("1a", "2")
            pool = self.items + ["Base", "S1", "m", "zz", "9", "10", "1a", "100", "2"]
            for nm in self.rng.sample(pool, self.rng.choice([1, 1, 2, 3])):
                rules.insert(self.rng.randrange(len(rules) + 1), {"k": "str", "id": nm} if self.rng.random() < 0.7 else {"k": "var", "id": nm, "b": [0, 1]})
        return {"k": "Stingy", "ch": rules, "id": (self.rng.choice(["cfg", None]) if cid == "auto" else cid)}

def full_dump(p):
    """structural text incl. classes, generated flags, defaults and prio tags (for equality of whole objects)"""
    from common import Interner
    it = Interner(minlen=10**9)
    return dump(p, it)
