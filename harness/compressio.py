"""Integer arrays for C13/C14: generators, Python -> Coq term printers (type `nd` of Compress.v),
running integer_ndarray.ndint_compress, and an INDEPENDENT reference for what the property says
(keys = (row of the last non-zero entry, |value|); nothing here is copied from /repo)."""
import random, itertools
import numpy as np
import puan.ndarray as pnd
from common import z, lst

METHODS = ["shadow", "prio", "rank", "first", "last", "min", "max"]
BATCHED = ("shadow", "prio", "rank", "first", "last")
METHOD_TERM = {"shadow": "Shadow", "prio": "Prio", "rank": "Rank", "first": "First", "last": "Last", "min": "Min", "max": "Max"}
I64 = 2 ** 63

# ----------------------------------------------------------------------------- terms
def lz(v):
    return lst(z(x) for x in v)

def llz(m):
    return lst(lz(r) for r in m)

def nd_term(a):
    a = np.asarray(a)
    if a.ndim == 0:
        return f"(Sc {z(int(a))})"
    if a.ndim == 1:
        return f"(V1 {lz(a.tolist())})"
    if a.ndim == 2:
        return f"(M2 {llz(a.tolist())})"
    if a.ndim == 3:
        return f"(T3 {lst(llz(m) for m in a.tolist())})"
    raise ValueError(a.ndim)

def axis_term(ax):
    return "None" if ax is None else f"(Some {int(ax)}%nat)"

def compress_case_term(method, axis, arr, out):
    o = "None" if out is None else f"(Some {nd_term(out)})"
    return f"({METHOD_TERM[method]}, {axis_term(axis)}, {nd_term(arr)}, {o})"

# ----------------------------------------------------------------------------- implementation
def run_compress(arr, method, axis):
    """the real implementation; returns a numpy array (or raises)"""
    a = np.array(arr, dtype=np.int64)
    # the memory layout is the caller's business: C order, Fortran order or a transposed view, chosen from the data (a replay
    # builds the same array); the values, and so the required answer, are the same
    if a.ndim >= 2 and a.size:
        k = (int(np.abs(a).sum() % 1000003) + a.size) % 3
        if k == 1:
            a = np.asfortranarray(a)
        elif k == 2:
            axes = tuple(reversed(range(a.ndim)))
            a = np.ascontiguousarray(a.transpose(axes)).transpose(axes)
    return np.asarray(pnd.integer_ndarray(a).ndint_compress(method=method, axis=axis))

def valid_axes(method, ndim):
    if method in BATCHED:
        return {1: [None, 0], 2: [None, 0, 1], 3: [None, 0, 1]}[ndim]
    return {1: [None, 0], 2: [None, 0, 1], 3: [None, 0, 1, 2]}[ndim]

# ----------------------------------------------------------------------------- generators
PALETTES = [
    [0, 0, 1, 2, 3, -1, -2, 5, -5],          # ties, zeros, mixed signs
    [0, 1, -1],                              # many ties
    [0, 0, 0, 0, 4, -4],                     # sparse: all-zero rows/columns
    [1, 2, 3, 4, 5, 6, 7, -1, -2, -3],       # no zeros
    [0, 7, -7, 1000, -1000, 32767, -32768, 2 ** 40, -(2 ** 40)],   # wide magnitudes
    [0, 2 ** 53, 2 ** 53 + 1, -(2 ** 53 + 2), 2 ** 53 + 3, 1, -(2 ** 53)],   # neighbours beyond float64's exact range
    [2 ** 62, 2 ** 62 + 1, -(2 ** 62 - 1), 0, 3, 2 ** 61],         # near the int64 limit (weights stay small)
]

def gen_values(rng, n, pal=None):
    pal = pal if pal is not None else rng.choice(PALETTES)
    return [rng.choice(pal) for _ in range(n)]

def gen_array(rng, ndim, maxdim=None):
    pal = rng.choice(PALETTES)
    if ndim == 1:
        n = rng.randint(1, maxdim or 8)
        a = gen_values(rng, n, pal)
        if rng.random() < 0.1:
            a = [0] * n
        return a
    if ndim == 2:
        r, c = rng.randint(1, maxdim or 5), rng.randint(1, maxdim or 6)
        m = [gen_values(rng, c, pal) for _ in range(r)]
        k = rng.random()
        if k < 0.25 and r > 1:
            m[rng.randrange(r)] = [0] * c                      # an all-zero row (between others)
        if 0.2 < k < 0.45 and c > 1:
            j = rng.randrange(c)
            for row in m:
                row[j] = 0                                     # an all-zero column
        if k > 0.95:
            m = [[0] * c for _ in range(r)]
        return m
    if ndim == 3:
        b, r, c = rng.randint(1, 3), rng.randint(1, maxdim or 4), rng.randint(1, maxdim or 4)
        t = []
        for _ in range(b):
            m = [gen_values(rng, c, pal) for _ in range(r)]
            if rng.random() < 0.2 and r > 1:
                m[rng.randrange(r)] = [0] * c
            t.append(m)
        return t
    raise ValueError(ndim)

def gen_levels_matrix(rng, nlevels, reps):
    """a 2-row priority matrix with up to 2*nlevels distinct keys, each repeated up to `reps` times:
    drives the weights towards (and beyond) 64 bits"""
    cols = []
    for lv in range(1, nlevels + 1):
        for _ in range(rng.randint(1, reps)):
            s = rng.choice([1, -1])
            if rng.random() < 0.5:
                cols.append((s * lv, 0))                          # key (row 0, lv)
            else:
                cols.append((rng.choice([0, 1, -1]), s * lv))     # key (row 1, lv)
    rng.shuffle(cols)
    return [[c[0] for c in cols], [c[1] for c in cols]]

# ----------------------------------------------------------------------------- independent reference
def eff_keys(M):
    """per column: None (all zero) or (row of last non-zero entry, value there)"""
    r = len(M)
    c = len(M[0]) if r else 0
    out = []
    for j in range(c):
        nzr = [i for i in range(r) if M[i][j] != 0]
        out.append((nzr[-1], int(M[nzr[-1]][j])) if nzr else None)
    return out

def key_of(e):
    return None if e is None else (e[0], abs(e[1]))

def ref_shadow(M):
    """weights by the defining recurrence w(k) = 1 + sum of |w| over all strictly lower keys (Python ints)"""
    eff = eff_keys(M)
    keys = sorted({key_of(e) for e in eff if e is not None})
    w, total = {}, 0
    for k in keys:
        w[k] = total + 1
        total += w[k] * sum(1 for e in eff if e is not None and key_of(e) == k)
    return [0 if e is None else w[key_of(e)] * (1 if e[1] > 0 else -1) for e in eff]

def ref_prio(M):
    eff = eff_keys(M)
    keys = sorted({key_of(e) for e in eff if e is not None})
    rk = {k: i + 1 for i, k in enumerate(keys)}
    return [0 if e is None else rk[key_of(e)] * (1 if e[1] > 0 else -1) for e in eff]

def sgn(x):
    return (x > 0) - (x < 0)

def shadow_property(M, w):
    """the C13 statement for 'shadow' on a 2-D array along axis 0, checked directly on the observed
    output w. Returns None if it holds, else a description. Caller guarantees the result fits."""
    eff = eff_keys(M)
    n = len(eff)
    if len(w) != n:
        return f"output has {len(w)} entries for {n} columns"
    for j in range(n):
        if eff[j] is None:
            if w[j] != 0:
                return f"column {j} is all zero but weight is {w[j]}"
        elif sgn(w[j]) != sgn(eff[j][1]):
            return f"column {j}: last non-zero entry {eff[j][1]} but weight {w[j]} (zero/sign not kept)"
    nzc = [j for j in range(n) if eff[j] is not None]
    for j in nzc:
        for k in nzc:
            kj, kk = key_of(eff[j]), key_of(eff[k])
            if (kj == kk) != (abs(w[j]) == abs(w[k])):
                return f"columns {j},{k}: keys {kj},{kk} but |weights| {abs(w[j])},{abs(w[k])} (ties)"
            if kj < kk and not abs(w[j]) < abs(w[k]):
                return f"columns {j},{k}: key {kj} < {kk} but |weights| {abs(w[j])} >= {abs(w[k])} (order)"
    for k in nzc:
        lower = sum(abs(w[j]) for j in nzc if key_of(eff[j]) < key_of(eff[k]))
        if not abs(w[k]) > lower:
            return f"column {k}: |weight| {abs(w[k])} does not exceed the sum {lower} of all lower priorities (dominance)"
    return None

def dense_ranking_property(vals, ranks, what):
    """ranks is an order-preserving dense ranking of vals: same order, same ties, consecutive values"""
    n = len(vals)
    if len(ranks) != n:
        return f"{what}: output has {len(ranks)} entries for {n}"
    for i in range(n):
        for j in range(n):
            if (vals[i] < vals[j]) != (ranks[i] < ranks[j]) or (vals[i] == vals[j]) != (ranks[i] == ranks[j]):
                return f"{what}: entries {i},{j} with values {vals[i]},{vals[j]} got ranks {ranks[i]},{ranks[j]}"
    if n:
        rs = sorted(set(ranks))
        if rs != list(range(rs[0], rs[0] + len(rs))):
            return f"{what}: ranks {rs} are not consecutive"
        if rs[0] not in (0, 1):
            return f"{what}: ranks start at {rs[0]}"
    return None

def prio_property(M, p):
    eff = eff_keys(M)
    n = len(eff)
    if len(p) != n:
        return f"prio: output has {len(p)} entries for {n} columns"
    for j in range(n):
        if eff[j] is None:
            if p[j] != 0:
                return f"prio: column {j} is all zero but prio is {p[j]}"
        elif sgn(p[j]) != sgn(eff[j][1]):
            return f"prio: column {j}: last non-zero entry {eff[j][1]} but prio {p[j]}"
    nzc = [j for j in range(n) if eff[j] is not None]
    d = dense_ranking_property([key_of(eff[j]) for j in nzc], [abs(p[j]) for j in nzc], "prio")
    if d:
        return d
    if nzc and min(abs(p[j]) for j in nzc) != 1:
        return f"prio: smallest magnitude is {min(abs(p[j]) for j in nzc)}, expected 1"
    return None

def first_nz(c):
    return next((int(x) for x in c if x != 0), 0)

def ref_simple(method, c):
    c = [int(x) for x in c]
    if method == "first":
        return first_nz(c)
    if method == "last":
        return first_nz(c[::-1])
    if method == "min":
        return min([x for x in c if x != 0], default=0)
    if method == "max":
        return max(c)
    raise ValueError(method)

def problems_2d(arr, method, axis, out=None):
    """reduce a (shape, axis) use of a BATCHED method to a list of (2-D matrix M compressed along
    axis 0, observed output vector or None, rank1); rank1 marks 1-D input with an integer axis,
    where prio/rank are the plain signed ranking of the vector."""
    a = np.array(arr, dtype=object)
    o = None if out is None else np.asarray(out)
    vec = lambda x: None if x is None else [int(v) for v in np.asarray(x).tolist()]
    if axis is None:
        return [([[int(x) for x in a.flatten()]], vec(o), False)]
    if a.ndim == 1:
        return [([[int(x) for x in a.tolist()]], vec(o), True)]
    if a.ndim == 2:
        M = a.tolist() if axis == 0 else a.T.tolist()
        return [(M, vec(o), False)]
    if a.ndim == 3:
        if axis == 0:
            return [(a[b].tolist(), None if o is None else vec(o[b]), False) for b in range(a.shape[0])]
        if axis == 1:
            # behaviour of the code: swap the two leading axes, compress every 2-D slice along its
            # axis 0, swap the two axes of the 2-D result
            sw = np.swapaxes(a, 0, 1)
            return [(sw[r].tolist(), None if o is None else vec(o[:, r]), False) for r in range(sw.shape[0])]
    raise ValueError((a.ndim, axis))

def fits(M):
    return all(abs(x) < I64 for x in ref_shadow(M))

def check_property(arr, method, axis, out):
    """The C13 statement executed on one observed (input, output) pair. None = holds; 'overflow' =
    outside the property's 64-bit guard; else a description of the violation."""
    a = np.array(arr, dtype=object)
    if method in ("min", "max"):
        o = np.asarray(out)
        if axis is None:
            exp = np.array([ref_simple(method, [x]) for x in a.flatten()], dtype=object)
        else:
            exp = np.apply_along_axis(lambda c: ref_simple(method, c), axis, a) if a.ndim > 1 else np.array(ref_simple(method, a.tolist()), dtype=object)
        if o.shape != np.asarray(exp).shape or [int(x) for x in o.flatten()] != [int(x) for x in np.asarray(exp).flatten()]:
            return f"{method}: got {o.tolist()}, the {'smallest non-zero' if method == 'min' else 'largest'} entries along the axis are {np.asarray(exp).tolist()}"
        return None
    for M, w, rank1 in problems_2d(arr, method, axis, out):
        if method == "shadow":
            if not fits(M):
                return "overflow"
            d = shadow_property(M, w)
        elif method == "prio":
            d = dense_ranking_property(M[0], w, "prio (1-D signed ranking)") if rank1 else prio_property(M, w)
        elif method == "rank":
            d = dense_ranking_property(M[0] if rank1 else ref_prio(M), w, "rank")
        else:
            exp = [ref_simple(method, [row[j] for row in M]) for j in range(len(M[0]))]
            if rank1:
                exp = list(M[0])
            d = None if exp == w else f"{method}: got {w}, expected {exp}"
        if d:
            return d + f" [matrix {M}, output {w}]"
    return None

def nontrivial(arr, method, axis):
    """>= 2 rows along the compressed axis, >= 2 distinct keys in >= 2 different rows, a tie among
    the keys and both signs among the effective entries"""
    if method not in BATCHED:
        return False
    for M, _, _ in problems_2d(arr, method, axis):
        if len(M) < 2:
            continue
        eff = [e for e in eff_keys(M) if e is not None]
        ks = [key_of(e) for e in eff]
        if (len(set(ks)) < len(ks) and len({k[0] for k in ks}) >= 2
                and any(e[1] < 0 for e in eff) and any(e[1] > 0 for e in eff)):
            return True
    return False
