"""Integer polyhedra for C11 / C12 / C19: structured generators of small systems, builders
(lists -> puan.ndarray.ge_polyhedron), Python -> Coq term printers for matrices / bounds /
outputs, and an independent brute-force reference (enumeration of all integer points of the
variable box).  Nothing here is copied from /repo."""
import random, itertools, json, math
import numpy as np
import puan, puan.ndarray as pnd
from common import q, z, b, lst, opt, pair

MIN_INT, MAX_INT = -32768, 32767

# ----------------------------------------------------------------------------- build
def declare(vid, bd, salt=0):
    """puan.variable(id, bounds[, dtype]) in one of its documented spellings, chosen from the data: bounds as tuple, list, numpy
    array or puan.Bounds, with or without the explicit dtype that matches them - the declared box is the same"""
    lo, hi = int(bd[0]), int(bd[1])
    k = (lo + 2 * hi + salt) % 6
    if k == 0:
        return puan.variable(vid, (lo, hi), dtype="int" if (lo, hi) != (0, 1) else "bool")
    if k == 1:
        return puan.variable(vid, [lo, hi])
    if k == 2:
        return puan.variable(vid, puan.Bounds(lo, hi))
    if k == 3:
        return puan.variable(vid, (lo, hi), dtype=puan.Dtype.INT if (lo, hi) != (0, 1) else None)
    if k == 4:
        return puan.variable(vid, np.array([lo, hi]))
    return puan.variable(vid, (lo, hi))

def mk_poly(M, bnds, var_ids=None, idx_ids=None, narrow=False):
    """M: list of rows [b, a1..an]; bnds: [(lo,hi)] per column of A.  narrow=True stores the matrix in the narrowest
    (deterministically chosen among those that fit) integer dtype that holds every entry exactly."""
    n = len(bnds)
    var_ids = var_ids or ["0"] + ["v%d" % j for j in range(n)]
    idx_ids = idx_ids or ["r%d" % i for i in range(len(M))]
    # column 0 carries b; the variable declared for it is the support vector variable (bounds (1,1)) or, as in the library's own
    # examples, a plain puan.variable("0") with the default bounds (0,1): chosen from the data, it must not matter for A
    b0 = (1, 1) if (len(M) + n + sum(int(x[0]) + int(x[1]) for x in bnds)) % 4 else (0, 1)
    vs = [puan.variable(var_ids[0], b0)] + [declare(var_ids[j + 1], bnds[j], j) for j in range(n)]
    ix = [puan.variable(i, (0, 1)) for i in idx_ids]
    arr = np.array(M, dtype=np.int64).reshape(len(M), n + 1)
    if narrow and M:
        flat = [v for r in M for v in r]
        lo, hi = min(flat), max(flat)
        cands = [np.int64]
        if lo >= -2 ** 31 and hi < 2 ** 31: cands.append(np.int32)
        if lo >= -2 ** 15 and hi < 2 ** 15: cands.append(np.int16)
        if lo >= -128 and hi < 128: cands.append(np.int8)
        dt = narrow if narrow is not True else cands[(sum(flat) + len(flat)) % len(cands)]
        src = arr.astype(dt)
        # the array the polyhedron is built FROM may be Fortran-ordered or a transposed view (chosen from the data)
        k = (sum(abs(x) for x in flat) + len(flat)) % 3
        if k == 1:
            src = np.asfortranarray(src)
        elif k == 2 and src.ndim == 2:
            src = np.ascontiguousarray(src.T).T
        return pnd.ge_polyhedron(src, variables=vs, index=ix, dtype=dt)
    return pnd.ge_polyhedron(arr, variables=vs, index=ix)

def poly_lists(P):
    """(M, bnds, var ids, index ids) read back from a ge_polyhedron."""
    M = np.asarray(P).astype(object).tolist()
    vs = list(P.variables)
    bn = [(int(v.bounds.lower), int(v.bounds.upper)) for v in vs[1:]]
    return ([[int(x) for x in r] for r in M], bn, [str(v.id) for v in vs],
            [str(getattr(i, "id", i)) for i in list(P.index)])

# ----------------------------------------------------------------------------- Coq printers
def zl(xs):
    return lst(z(x) for x in xs)
def zll(m):
    return lst(zl(r) for r in m)
def zlll(g):
    return lst(zll(m) for m in g)
def bl(xs):
    return lst(b(bool(x)) for x in xs)
def bll(m):
    return lst(bl(r) for r in m)
def ozl(xs):
    """float vector with nan -> list (option Z)"""
    out = []
    for x in xs:
        if x is None or (isinstance(x, float) and math.isnan(x)):
            out.append("None")
        else:
            if float(x) != int(x):
                raise ValueError(f"non-integral column value {x}")
            out.append(f"(Some {z(int(x))})")
    return lst(out)
def zpl(ps):
    return lst(f"({z(a)}, {z(c)})" for a, c in ps)

def poly_term(M, bnds, var_ids=None, idx_ids=None, sv_bounds=(1, 1)):
    n = len(bnds)
    var_ids = var_ids or ["0"] + ["v%d" % j for j in range(n)]
    idx_ids = idx_ids or ["r%d" % i for i in range(len(M))]
    vs = [f"({q(var_ids[0])}, ({z(sv_bounds[0])}, {z(sv_bounds[1])}))"] + \
         [f"({q(var_ids[j + 1])}, ({z(bnds[j][0])}, {z(bnds[j][1])}))" for j in range(n)]
    return f"(mkPoly {zll(M)} {lst(vs)} {lst(q(i) for i in idx_ids)})"

def poly_term_of(P):
    M, bn, vi, ii = poly_lists(P)
    sv = P.variables[0].bounds
    return poly_term(M, bn, vi, ii, (int(sv.lower), int(sv.upper)))

def nanlist(v):
    """numpy float vector -> list with None for nan and ints otherwise (JSON friendly)"""
    return [None if (isinstance(x, float) and math.isnan(x)) else int(x) for x in np.asarray(v, dtype=float).tolist()]

# ----------------------------------------------------------------------------- brute force
def box_size(bnds):
    n = 1
    for lo, hi in bnds:
        n *= (hi - lo + 1)
    return n

def box_points(bnds):
    return itertools.product(*[range(lo, hi + 1) for lo, hi in bnds])

def lhs(row, x):
    return sum(int(a) * int(v) for a, v in zip(row[1:], x))

def row_ok(row, x):
    return lhs(row, x) >= row[0]

def is_solution(M, bnds, x):
    return all(lo <= v <= hi for (lo, hi), v in zip(bnds, x)) and all(row_ok(r, x) for r in M)

def solutions(M, bnds):
    return [x for x in box_points(bnds) if all(row_ok(r, x) for r in M)]

def max_row_count(M, bnds):
    out = 1
    for r in M:
        c = 1
        for a, (lo, hi) in zip(r[1:], bnds):
            if a != 0:
                c *= (hi - lo + 1)
        out = max(out, c)
    return out

# ----------------------------------------------------------------------------- generators
COEF_SMALL = [0, 0, 0, 1, -1, 1, -1, 2, -2, 3, -3]
COEF_ANY = [0, 0, 1, -1, 2, -2, 3, -3, 4, -5, 6, 7, -7]

def gen_bounds(rng, n, profile):
    out = []
    for _ in range(n):
        k = rng.random()
        if profile == "bool" or (profile != "wide" and k < 0.35):
            out.append((0, 1))
        elif profile == "wide":
            kk = rng.random()
            if kk < 0.3:
                out.append((MIN_INT, MAX_INT))
            elif kk < 0.5:
                out.append((0, 1))
            else:
                lo = rng.randint(MIN_INT, MAX_INT - 1); out.append((lo, rng.randint(lo, MAX_INT)))
        elif k < 0.5:
            c = rng.randint(-3, 3); out.append((c, c))               # degenerate
        elif k < 0.75:
            lo = rng.randint(-4, 0); out.append((lo, lo + rng.randint(1, 4)))   # negative lower bound
        else:
            lo = rng.randint(-2, 3); out.append((lo, lo + rng.randint(0, 4)))
    return out

# coefficient magnitudes a for which q*a*(1.0/a) != q for some small q (multiplying by a reciprocal instead of
# dividing lands just below the exact quotient): 49, 98, 103, 107, 161, ...
RECIP = [a for a in range(2, 400) if any(float(q * a) * (1.0 / a) != float(q) for q in range(1, 6))]

def gen_recip(rng):
    """a row whose tightened bound is an EXACT quotient q = (a*q)/a with a in RECIP, attained by a solution"""
    a = rng.choice(RECIP); q = rng.randint(1, 3)
    lo = rng.choice([0, 0, -1])
    bnds = [(lo, q + rng.choice([0, 0, 1])), (0, a * q)]
    M = [[0, -a, 1]] if rng.random() < 0.6 else [[-a * q, a, -1]]       # -a p + y >= 0   /   a p - y >= -a q
    if rng.random() < 0.4:
        bnds.append((0, 1)); M = [r + [rng.choice([0, 1, -1])] for r in M]
    if rng.random() < 0.3:
        M.append([rng.randint(-2, 1)] + [rng.choice([0, 1, -1]) for _ in bnds])
    return M, bnds, "recip"

def gen_system(rng, profile=None, max_rows=4, max_cols=4):
    """A small system (M, bnds, profile).  Profiles steer towards the guards of the code:
       bool     boolean columns, +-1 coefficients (what the logic layer emits for leaves)
       bigm     boolean/integer columns with one big-M column per row
       mixed    any small coefficients, mixed bounds (negative, degenerate)
       forcing  rows built to be tight at a box corner, so that columns become fixed
       infeas   forcing rows plus a contradicting one
       zeros    zero rows / zero columns sprinkled in
       wide     int16-range bounds, large coefficients / constants"""
    profile = profile or rng.choice(["bool", "bigm", "mixed", "mixed", "forcing", "forcing", "chain", "infeas", "zeros", "wide", "recip"])
    if profile == "recip":
        return gen_recip(rng)
    if profile == "chain":
        return gen_chain(rng, max_rows, max_cols)
    n = rng.randint(1, max_cols); r = rng.randint(1, max_rows)
    bnds = gen_bounds(rng, n, "bool" if profile == "bool" else ("wide" if profile == "wide" else "mixed"))
    M = []
    def rand_row(coefs):
        return [rng.choice(coefs) for _ in range(n)]
    def pick_b(mn, mx, slack=1):
        # lower half more often: several rows should stay jointly feasible in most cases
        if rng.random() < 0.6:
            return rng.randint(mn - slack, (mn + mx) // 2 + 1)
        return rng.randint(mn - slack, mx + slack)
    def extremes(a):
        mn = sum(min(c * lo, c * hi) for c, (lo, hi) in zip(a, bnds))
        mx = sum(max(c * lo, c * hi) for c, (lo, hi) in zip(a, bnds))
        return mn, mx
    for i in range(r):
        if profile == "bool":
            a = rand_row([0, 1, -1, 1, -1]); mn, mx = extremes(a)
            M.append([pick_b(mn, mx)] + a)
        elif profile == "bigm":
            a = rand_row([0, 1, -1, 1, -1])
            j = rng.randrange(n); a[j] = rng.choice([-1, 1]) * rng.randint(2, 6)
            mn, mx = extremes(a)
            M.append([pick_b(mn, mx)] + a)
        elif profile in ("forcing", "infeas"):
            a = rand_row(COEF_ANY); mn, mx = extremes(a)
            k = rng.random()
            bb = mx if k < 0.3 else (mx - rng.randint(0, 3) if k < 0.55 else pick_b(mn, mx))
            M.append([bb] + a)
        elif profile == "zeros":
            a = rand_row(COEF_SMALL) if rng.random() < 0.6 else [0] * n
            mn, mx = extremes(a)
            M.append([rng.randint(mn - 2, mx + 2)] + a)
        elif profile == "wide":
            a = rand_row([0, 1, -1, 2, -3, 7, -11, 100, -255, 32767, -40000])
            mn, mx = extremes(a)
            k = rng.random()
            bb = rng.randint(mn - 5, mx + 5) if k < 0.7 else (mx - rng.randint(0, 50) if k < 0.85 else rng.randint(-2**31 + 1, 2**31 - 1))
            M.append([bb] + a)
        else:
            a = rand_row(COEF_ANY if rng.random() < 0.6 else COEF_SMALL); mn, mx = extremes(a)
            M.append([pick_b(mn, mx, 2)] + a)
    if profile == "infeas" and M:
        # contradict a row: -a.x >= -(b-1)
        src = rng.choice(M)
        M.append([-(src[0] - 1)] + [-c for c in src[1:]])
    if profile == "wide":
        # numeric range guard (DESIGN 3.5): numpy's int64 product in n_row_combinations wraps at 2^63
        # (four int16-wide columns in one row).  Keep the per-row combination count below 2^62.
        while max_row_count(M, bnds) >= 2 ** 62:
            j = max(range(n), key=lambda k: bnds[k][1] - bnds[k][0])
            bnds[j] = (0, 1)
    if profile == "zeros" and n > 1 and rng.random() < 0.7:
        j = rng.randrange(n)
        for row in M:
            row[j + 1] = 0
    return M, bnds, profile

def gen_chain(rng, max_rows=4, max_cols=4):
    """rows that force one column each, but only after the previously forced column has been
    substituted: the fixpoint loop needs several passes (plus an optional free row)."""
    n = rng.randint(2, max(2, max_cols))
    bnds = []
    for _ in range(n):
        if rng.random() < 0.5:
            bnds.append((0, 1))
        else:
            lo = rng.randint(-3, 1); bnds.append((lo, lo + rng.randint(1, 3)))
    order = list(range(n)); rng.shuffle(order)
    depth = rng.randint(2, min(n, max_rows))
    M = []
    forced = {}
    for k in range(depth):
        j = order[k]; lo, hi = bnds[j]
        a = [0] * n
        c = rng.choice([1, -1, 2, -2, 3])
        a[j] = c
        to_hi = rng.random() < 0.5
        val = hi if to_hi else lo
        # forcing x_j = val means c*x_j >= c*val must be tight in the right direction
        if (c > 0) != to_hi:
            c = -c; a[j] = c
        bb = c * val
        if k > 0:
            pj = order[k - 1]; plo, phi = bnds[pj]
            fv = forced[pj]
            # coefficient whose product with the forced value is the MINIMUM of c2*x over the box
            c2 = rng.choice([1, 2]) * (-1 if fv == phi else 1)
            if plo == phi:
                c2 = rng.choice([1, -1])
            a[pj] = c2
            bb += c2 * fv
        forced[j] = val
        M.append([bb] + a)
    if len(M) < max_rows and rng.random() < 0.6:
        a = [rng.choice(COEF_SMALL) for _ in range(n)]
        mn = sum(min(c * lo, c * hi) for c, (lo, hi) in zip(a, bnds))
        mx = sum(max(c * lo, c * hi) for c, (lo, hi) in zip(a, bnds))
        M.append([rng.randint(mn - 1, (mn + mx) // 2 + 1)] + a)
    rng.shuffle(M)
    return M, bnds, "chain"

def gen_points(rng, n, rank, bnds=None, M=None, span=3):
    """integer point arrays of the given rank (shape (n,), (k,n), (g,k,n)); values around the box
    or, with M given, biased towards the boundary of the rows so both verdicts occur."""
    def pt():
        if bnds and rng.random() < 0.7:
            return [rng.randint(lo - 1, hi + 1) for lo, hi in bnds]
        return [rng.randint(-span, span) for _ in range(n)]
    if rank == 1:
        return pt()
    if rank == 2:
        return [pt() for _ in range(rng.choice([0, 1, 1, 2, 3, 4]))]
    g = rng.choice([0, 1, 2, 2, 3]); k = rng.choice([0, 1, 2, 2, 3])
    return [[pt() for _ in range(k)] for _ in range(g)]

def points_dtype(pts, salt=0):
    """a numpy integer dtype that can hold every coordinate exactly (the property is about integer points
    whatever their storage type); deterministic in the points so that replays use the same dtype"""
    def flat(x):
        return [v for y in x for v in flat(y)] if isinstance(x, list) else [x]
    vals = flat(pts) or [0]
    lo, hi = min(vals), max(vals)
    cands = [np.int64]
    if lo >= -2 ** 31 and hi < 2 ** 31: cands.append(np.int32)
    if lo >= -2 ** 15 and hi < 2 ** 15: cands.append(np.int16)
    if lo >= -128 and hi < 128: cands.append(np.int8)
    if lo >= 0:
        if hi < 2 ** 32: cands.append(np.uint32)
        if hi < 2 ** 16: cands.append(np.uint16)
        if hi < 256: cands.append(np.uint8)
    return cands[(sum(vals) + len(vals) + salt) % len(cands)]

def np_points(pts, n, rank, dtype=None):
    a = np.array(pts, dtype=np.int64)
    if rank == 2:
        a = a.reshape(len(pts), n)
    elif rank == 3:
        a = a.reshape(len(pts), len(pts[0]) if pts else 0, n)
    a = a.astype(dtype or points_dtype(pts))
    # the memory layout is the caller's business too: C order, Fortran order, or a transposed view - chosen from the data so
    # that a replay builds the same array; the values (and so the required answers) are the same
    if a.ndim >= 2 and a.size:
        k = (int(np.abs(a.astype(np.int64)).sum()) + a.size) % 3
        if k == 1:
            a = np.asfortranarray(a)
        elif k == 2:
            axes = tuple(reversed(range(a.ndim)))
            a = np.ascontiguousarray(a.transpose(axes)).transpose(axes)
    # ... and so is the array class: a plain numpy array, or one of the library's own integer array classes (what
    # get_neighbourhood(), from_list() or an earlier computation hand out), with its default variable tags - chosen from the data
    if a.size:
        c = (int(np.abs(a.astype(np.int64)).sum()) // 3 + a.size) % 4
        try:
            if c == 1:
                a = pnd.integer_ndarray(a)
            elif c == 2 and a.min() >= 0 and a.max() <= 1:
                a = pnd.boolean_ndarray(a)
        except Exception:
            pass
    return a

def _flat(x):
    return [v for y in x for v in _flat(y)] if isinstance(x, (list, tuple)) else [x]

def poly_and_points(M, bnds, pts, rank):
    """the ge_polyhedron and the numpy point array for one case.  Storage types are a deterministic function of the
    data (replays rebuild the same objects): when the data allow it, about half of the cases store BOTH the
    polyhedron and the points in the same narrowest signed integer type that holds every entry exactly
    (int8 / int16 / int32) -- the integers are the same, so the required answers are the same --, the rest pick
    the two types independently."""
    n = len(bnds)
    vals = _flat(M) + _flat(pts) or [0]
    lo, hi = min(vals), max(vals)
    common = np.int8 if (lo >= -128 and hi < 128) else np.int16 if (lo >= -2 ** 15 and hi < 2 ** 15) \
        else np.int32 if (lo >= -2 ** 31 and hi < 2 ** 31) else None
    if common is not None and M and (sum(vals) + len(vals)) % 2 == 0:
        P = mk_poly(M, bnds, narrow=common)
        return P, np_points(pts, n, rank, dtype=common)
    return mk_poly(M, bnds, narrow=True), np_points(pts, n, rank)

# ----------------------------------------------------------------------------- fixed systems
# Always run first (C11 / C12): the Coq non-vacuity examples, witnesses of the guards, past finds.
FIXED_SYSTEMS = [
    # C11_nonvacuous: x fixed in pass one, rows 0,1 reducible only after substitution
    ([[1, 1, 0, 0], [1, 1, 1, 0], [1, 0, 1, 1], [-4, 0, -2, -3]], [(0, 1), (0, 1), (-1, 2)]),
    # C12_nonvacuous: floor with remainders, positive and negative non-unit coefficients
    ([[3, 2, -3], [5, 5, 1], [3, 2, 0]], [(0, 5), (-2, 3)]),
    # infeasible: tightening reports lb > ub
    ([[3, 2, -3, 0], [-1, 0, 0, 0], [5, 5, 1, 0]], [(0, 1), (-2, 3), (0, 5)]),
    # everything fixed: the loop leaves through the "no column left" break
    ([[2, 1, 1], [0, 1, -1]], [(0, 1), (0, 1)]),
    # every row reducible: the loop leaves through the "no row left" break
    ([[-5, 1, 1], [-3, -1, 2]], [(0, 1), (0, 2)]),
    # zero row that is infeasible on its own (b > 0), zero column
    ([[1, 0, 0], [0, 1, 0]], [(0, 1), (-1, 1)]),
    # three-pass chain
    ([[1, 1, 0, 0], [0, -1, 1, 0], [0, 0, -1, 1]], [(0, 1), (0, 1), (0, 1)]),
    # big-M row as emitted by the logic layer, integer column
    ([[-3, -4, 1, 1, 1], [1, 1, 0, 0, 0]], [(0, 1), (0, 1), (0, 1), (-2, 5)]),
    # int16-wide bounds with large coefficients
    ([[1000000, 32767, -255], [-5, -1, 0]], [(MIN_INT, MAX_INT), (-100, 100)]),
]

def gen_large_sparse_planted(rng):
    """a polyhedron of the size configurators produce: thousands of entries, a few per cent non-zero, rows without variables,
    and a planted solution (so that the tightening oracle has feasible points to hold against the result)"""
    R, n = rng.randint(64, 80), rng.randint(66, 80)
    bnds = [(0, 1) if rng.random() < 0.85 else (rng.randint(-3, 0), rng.randint(1, 4)) for _ in range(n)]
    x0 = [rng.randint(lo, hi) for lo, hi in bnds]
    M = []
    for i in range(R):
        if rng.random() < 0.1:
            M.append([rng.choice([-1, 0])] + [0] * n); continue
        row = [rng.choice([-2, -1, 1, 1, 3]) if rng.random() < 0.05 else 0 for _ in range(n)]
        M.append([sum(c * v for c, v in zip(row, x0)) - rng.choice([0, 0, 1, 2])] + row)
    return M, bnds, x0

