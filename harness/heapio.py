"""C09/C17 plumbing: object labelling (Python id() -> small naturals), labelled dumps (Coq `lprop`),
sharing-preserving AST (de)serialisation, histories (op language mirrored in coq/theories/Heap.v),
deep structural dumps, canonical (JSON-able) forms of every kind of answer.

Nothing here copies code from /repo: objects are only built and queried through the public API."""
import json, random, copy, re, os
os.environ["RUST_BACKTRACE"] = "0"     # puan_rspy panics (caught below) would print pages of backtrace
import numpy as np
import puan, puan.logic.plog as pg, puan.ndarray as pnd
import puan.modules.configurator as cc
from common import q, z, b, lst, opt
from plogio import is_var, meta_term, dump, build, ModelGen, IdOracle, all_nodes, leaves_of

# ----------------------------------------------------------------------------- deferred interning
class DeferIt:
    """Terms must be printed AT THE MOMENT of the call (objects may be mutated afterwards), but the
    interner of the case file only exists later: record strings now, intern them when realised."""
    def __init__(self):
        self.strs = []
    def s(self, x):
        self.strs.append(str(x))
        return f"\x01{len(self.strs) - 1}\x02"
    def realize(self, text, it):
        return re.sub("\x01(\\d+)\x02", lambda m: it.s(self.strs[int(m.group(1))]), text)

# ----------------------------------------------------------------------------- labels
class Labeler:
    """Python object identity -> small natural; keeps the objects alive so id() stays unique."""
    def __init__(self):
        self.lab, self.keep = {}, []
    def of(self, obj):
        k = id(obj)
        if k not in self.lab:
            self.lab[k] = len(self.keep)
            self.keep.append(obj)
        return self.lab[k]
    def label_all(self, root):
        if is_var(root):
            return
        self.of(root)
        for c in root.propositions:
            self.label_all(c)
    def snapshot(self):
        """current own bounds of every labelled compound object"""
        return [(n, (int(o.variable.bounds.lower), int(o.variable.bounds.upper))) for n, o in enumerate(self.keep)]

def ldump(p, lab, it):
    """puan object -> Coq term of type Heap.lprop (own bounds of compounds live in the store)"""
    if is_var(p):
        return f"(LVar {it.s(p.id)} {z(p.bounds.lower)} {z(p.bounds.upper)})"
    return (f"(LNode {lab.of(p)}%nat {meta_term(p, it)} {it.s(p.id)} {b(p.generated_id)} {z(int(p.sign))} {z(p.value)} "
            f"{lst(ldump(c, lab, it) for c in p.propositions)})")

def store_term(snap):
    return lst(f"({n}%nat, ({z(lo)}, {z(hi)}))" for n, (lo, hi) in snap)

# ----------------------------------------------------------------------------- ASTs with sharing
def ast_pack(roots):
    """list of ASTs (dicts, possibly sharing sub-dicts) -> JSON-able {nodes, roots}; sharing kept"""
    nodes, index = [], {}
    def go(a):
        if id(a) in index:
            return index[id(a)]
        d = {k: v for k, v in a.items() if k != "ch"}
        if "ch" in a:
            d["ch"] = [go(c) for c in a["ch"]]
        index[id(a)] = len(nodes)
        nodes.append(d)
        return index[id(a)]
    return {"nodes": nodes, "roots": [go(r) for r in roots]}

def ast_unpack(packed):
    built = {}
    def go(i):
        if i in built:
            return built[i]
        d = dict(packed["nodes"][i])
        if "ch" in d:
            d["ch"] = [go(c) for c in d["ch"]]
        built[i] = d
        return d
    return [go(r) for r in packed["roots"]]

def build_pool(asts):
    """fresh objects for a pool specification: ASTs (shared sub-ASTs become shared Python objects)
    and DERIVED objects {"k": "derive", "how": negate|assume|reduce, "src": index, "d": dict} obtained
    from an earlier pool object through the API itself (aliasing: negate() re-uses the child
    objects of its operand, assume()/reduce() re-use leaf and variable objects)"""
    memo, out = {}, []
    for a in asts:
        if a["k"] == "derive":
            src = out[a["src"]]
            out.append(src.negate() if a["how"] == "negate" else src.reduce() if a["how"] == "reduce" else src.assume(mk_dict(a["d"])))
        else:
            out.append(build(a, memo))
    return out

# ----------------------------------------------------------------------------- dictionaries
# encoded (JSON-able): list of [id, kind, lo, hi]; kind: "i" int, "n" numpy int, "t" tuple, "B" Bounds
def mk_dict(enc):
    d = {}
    for i, k, lo, hi in enc:
        d[i] = int(lo) if k == "i" else np.int64(lo) if k == "n" else (lo, hi) if k == "t" else puan.Bounds(lo, hi)
    return d

def dict_term(enc, it):
    seen, items = set(), []
    for i, k, lo, hi in reversed(enc):          # a Python dict keeps the LAST value of a key
        if i not in seen:
            seen.add(i)
            items.append(f"({it.s(i)}, ({z(lo)}, {z(hi if k in 'tB' else lo)}))")
    return lst(reversed(items))

# ----------------------------------------------------------------------------- deep dumps / canonical answers
SKIP = ("propositions", "variable", "condition", "consequence", "default")
def sdump(p):
    """deep structural dump of a proposition object: class, id, bounds, EVERY instance attribute"""
    if is_var(p):
        return ["var", type(p).__name__, p.id, [int(p.bounds.lower), int(p.bounds.upper)]]
    extra = sorted((k, repr(v)) for k, v in p.__dict__.items() if k not in SKIP)
    return [type(p).__module__ + "." + type(p).__name__, p.id, [int(p.bounds.lower), int(p.bounds.upper)],
            type(p.variable).__name__, extra, [sdump(c) for c in p.propositions],
            sdump(p.condition) if hasattr(p, "condition") and not isinstance(p.condition, str) else getattr(p, "condition", None),
            sdump(p.consequence) if hasattr(p, "consequence") and not isinstance(p.consequence, str) else getattr(p, "consequence", None),
            [sdump(x) for x in p.default] if hasattr(p, "default") else None]

def jcanon(x):
    """JSON-able canonical form of any answer of the API"""
    if isinstance(x, pnd.variable_ndarray):
        r = {"cls": type(x).__name__, "dtype": str(x.dtype), "m": np.asarray(x).tolist(),
             "vars": [jcanon(v) for v in (x.variables if x.variables is not None else [])],
             "index": [jcanon(v) for v in (x.index if x.index is not None else [])]}
        if hasattr(x, "default_prio_vector"):
            r["dpv"] = np.asarray(x.default_prio_vector).tolist()
            r["dpv_dtype"] = str(np.asarray(x.default_prio_vector).dtype)
        return r
    if isinstance(x, np.ndarray):
        return {"nd": x.tolist(), "dtype": str(x.dtype)}
    if isinstance(x, puan.Bounds):
        return ["Bounds", int(x.lower), int(x.upper)]
    if isinstance(x, (puan.variable, pg.AtLeast)):
        return sdump(x)
    if isinstance(x, (np.integer,)):
        return int(x)
    if isinstance(x, (np.floating,)):
        return float(x)
    if isinstance(x, dict):
        return [[jcanon(k), jcanon(v)] for k, v in x.items()]
    if isinstance(x, (list, tuple)):
        return [jcanon(v) for v in x]
    if isinstance(x, (str, int, float, bool)) or x is None:
        return x
    if isinstance(x, BaseException):
        return ["raise", type(x).__name__]
    if hasattr(x, "name") and hasattr(x, "value"):
        return str(x.name)
    return repr(x)

def poly_parts(P):
    """(columns [(id, lo, hi)], rows [[b, a...]]) of a ge_polyhedron"""
    cols = [(v.id, int(v.bounds.lower), int(v.bounds.upper)) for v in P.variables[1:]]
    return cols, np.asarray(P).tolist()

# ----------------------------------------------------------------------------- the op language
MODELLED = ("evaluate", "evalprops", "assume", "reduce", "negate", "errors", "flatten", "dump", "eqb", "poly")
OBSERVE_ONLY = ("json", "text", "b64", "short", "variables", "taut", "solve", "deepcopy", "derived")   # pure by C09; modelled as ODump

def apply_op(obj, op):
    """run one call on the implementation; returns the raw answer or the exception"""
    k = op["op"]
    try:
        if k == "evaluate":
            return obj.evaluate(mk_dict(op["d"]))
        if k == "evalprops":
            return obj.evaluate_propositions(mk_dict(op["d"]))
        if k == "assume":
            return obj.assume(mk_dict(op["d"]))
        if k == "reduce":
            return obj.reduce()
        if k == "negate":
            return obj.negate()
        if k == "errors":
            return obj.errors()
        if k == "flatten":
            return obj.flatten()
        if k == "dump":
            return obj
        if k == "eqb":
            return (obj.equation_bounds, bool(obj.is_tautology), bool(obj.is_contradiction))
        if k == "poly":
            return obj.to_ge_polyhedron(bool(op["active"]))
        if k == "json":
            return json.dumps(obj.to_json(), sort_keys=True)
        if k == "text":
            return obj.to_text()
        if k == "b64":
            return sdump(pg.from_b64(obj.to_b64()))
        if k == "short":
            return obj.to_short()
        if k == "solve":                      # the built-in solver (solver=None); only what it leaves behind matters here
            return [[sorted((str(i), int(v)) for i, v in (d or {}).items()), None if val is None else int(val), int(st)]
                    for d, val, st in obj.solve([dict(o) for o in op["objs"]])]
        if k == "derived":
            # a proposition the library handed out (assume / reduce / negate of obj) is used further on - queried with a
            # dictionary that names ITS sub-propositions; that is the derived object's business, never the receiver's
            r = obj.assume(mk_dict(op["d"])) if op["how"] == "assume" else obj.reduce() if op["how"] == "reduce" else obj.negate()
            if not is_var(r):
                cids = sorted(x.id for x in all_nodes(r) if not is_var(x))
                d2 = {cids[(op["pick"] + j) % len(cids)]: v for j, v in enumerate(op["vals"])}
                try:
                    r.evaluate(dict(d2)); r.assume(dict(d2))
                except Exception:
                    pass
            return "used"
        if k == "deepcopy":
            import copy
            return sdump(copy.deepcopy(obj))
        if k == "variables":
            return obj.variables
        if k == "taut":
            return (bool(obj.is_tautology), bool(obj.is_contradiction))
    except (KeyboardInterrupt, SystemExit):
        raise
    except BaseException as e:            # pyo3 panics of puan_rspy derive from BaseException
        return e
    raise ValueError(k)

ERR = {"CIRCULAR_DEPENDENCIES": "CIRCULAR", "AMBIVALENT_VARIABLE_DEFINITIONS": "AMBIVALENT", "NON_UNIQUE_SUB_PROPOSITION_SET": "NON_UNIQUE"}

def op_term(op, it):
    k, o = op["op"], f"{op['obj']}%nat"
    if k == "evaluate":
        return f"(OEvaluate {o} {dict_term(op['d'], it)})"
    if k == "evalprops":
        return f"(OEvalProps {o} {dict_term(op['d'], it)})"
    if k == "assume":
        return f"(OAssume {o} {dict_term(op['d'], it)})"
    if k == "poly":
        return f"(OPoly {o} {b(op['active'])})"
    return {"reduce": f"(OReduce {o})", "negate": f"(ONegate {o})", "errors": f"(OErrors {o})",
            "flatten": f"(OFlatten {o})", "dump": f"(ODump {o})", "eqb": f"(OEqBounds {o})"}.get(k, f"(ODump {o})")

def out_term(op, raw, obj, it):
    """observed answer -> Coq term of type Heap.out (observe-only ops: the object's dump after the call)"""
    k = op["op"]
    if k == "evaluate":
        return f"(RBounds (Some ({z(raw.lower)}, {z(raw.upper)})))"
    if k == "evalprops":
        return "(RDict " + lst(f"({it.s(i)}, ({z(v.lower)}, {z(v.upper)}))" for i, v in raw.items()) + ")"
    if k in ("assume", "reduce", "negate"):
        return f"(RProp {dump(raw, it)})"
    if k == "errors":
        return "(RErrs " + lst(ERR[e.name] for e in raw) + ")"
    if k == "flatten":
        return "(RProps " + lst(dump(x, it) for x in raw) + ")"
    if k == "eqb":
        (lo, hi), t, c = raw
        return f"(REq ({z(lo)}, {z(hi)}) {b(t)} {b(c)})"
    if k == "poly":
        cols, rows = poly_parts(raw)
        return ("(RPoly " + lst(f"({it.s(i)}, ({z(lo)}, {z(hi)}))" for i, lo, hi in cols) + " "
                + lst(lst(z(x) for x in r) for r in rows) + ")")
    return f"(RProp {dump(obj, it)})"

def compound_ids_of(obj):
    return {x.id for x in all_nodes(obj) if not is_var(x)}

def strip_compound_entries(op, cids):
    """the same call with the dictionary entries naming a compound id removed"""
    if op.get("d") is None:
        return op
    o = dict(op)
    o["d"] = [e for e in op["d"] if e[0] not in cids]
    return o

# ----------------------------------------------------------------------------- generators
DICT_OPS = ("evaluate", "evalprops", "assume")

def gen_pool_asts(rng, vb=0.12):
    """1-3 ASTs over one leaf alphabet; later ones may contain earlier sub-ASTs (shared objects)"""
    g = ModelGen(random.Random(rng.getrandbits(64)), share=0.35, explicit=0.75)
    asts = []
    for _ in range(rng.randint(1, 3)):
        if asts and g.pool and rng.random() < 0.45:
            sub = rng.choice(g.pool)
            kind = rng.choice(["All", "Any", "AtLeast", "AtMost", "Xor", "Imply"])
            others = [g.leaf() for _ in range(rng.randint(0, 2))]
            if kind == "Imply":
                ch = [sub, g.leaf()] if rng.random() < 0.5 else [g.leaf(), sub]
            else:
                ch, seen = [sub], set()
                for o in others:
                    if o["id"] not in seen:
                        seen.add(o["id"]); ch.append(o)
            a = {"k": kind, "ch": ch, "id": g.fresh()}
            if kind in ("AtLeast", "AtMost"):
                a["v"] = rng.randint(-1, 2); a["s"] = None
            g.pool.append(a)
            asts.append(a)
        else:
            asts.append(g.prop(rng.randint(1, 3)))
    # a few compounds with pre-fixed own bounds (exercise the early return of assume/reduce)
    for a in g.pool:
        if a.get("id") is not None and a["k"] not in ("Not",) and rng.random() < vb:
            a["vb"] = rng.choice([[0, 0], [1, 1], [0, 1]])
    # derived objects: aliasing through the API
    if len(asts) < 3 and rng.random() < 0.4:
        how = rng.choice(["negate", "negate", "negate", "assume", "reduce"])
        d = None
        if how == "assume":
            nm = rng.choice(list(g.leaves)); lo, hi = g.leaves[nm]
            d = [[nm, "t", lo, rng.randint(lo, hi)]] if rng.random() < 0.5 else []
        asts.append({"k": "derive", "how": how, "src": rng.randrange(len(asts)), "d": d})
    return g, asts

def gen_dict(rng, g, objs, k, compound):
    """dictionary for a call on objs[k]: leaves (any representation); with `compound` also ids of compounds"""
    enc = []
    names = list(g.leaves)
    for nm in rng.sample(names, rng.randint(0, len(names))):
        lo, hi = g.leaves[nm]
        r = rng.random()
        if r < 0.55:
            v = rng.choice([lo, hi, rng.randint(lo, hi)])
            enc.append([nm, rng.choice("iin"), v, v])
        elif r < 0.9:
            a = rng.randint(lo, hi); c = rng.randint(a, hi)
            enc.append([nm, rng.choice("tB"), a, c])
        else:
            v = rng.choice([lo - 1, hi + 1, 0, 1])          # out-of-bounds values are accepted by the API
            enc.append([nm, "i", v, v])
    if rng.random() < 0.1:
        enc.append(["zz_unknown", "i", 1, 1])
    if compound:
        own = sorted(compound_ids_of(objs[k]))
        anyc = sorted(set().union(*[compound_ids_of(o) for o in objs]))
        for _ in range(rng.choice([1, 1, 1, 2, 3])):
            cid = rng.choice(own if rng.random() < 0.8 else anyc)
            lo, hi, kind = rng.choice([(0, 0, "i"), (1, 1, "i"), (1, 1, "n"), (0, 0, "t"), (1, 1, "t"), (0, 1, "t"), (0, 1, "B"),
                                       (1, 1, "B"), (2, 2, "i"), (0, 3, "t"), (-1, -1, "i")])
            enc.append([cid, kind, lo, hi])
        rng.shuffle(enc)
    return enc

def gen_history(rng, g, objs, n, compound, allow_poly=True):
    ops = []
    for _ in range(n):
        k = rng.randrange(len(objs))
        r = rng.random()
        if r < 0.30:
            op = {"op": "evaluate", "obj": k, "d": gen_dict(rng, g, objs, k, compound and rng.random() < 0.7)}
        elif r < 0.42:
            op = {"op": "evalprops", "obj": k, "d": gen_dict(rng, g, objs, k, compound and rng.random() < 0.7)}
        elif r < 0.55:
            op = {"op": "assume", "obj": k, "d": gen_dict(rng, g, objs, k, compound and rng.random() < 0.7)}
        else:
            kinds = ["reduce", "negate", "errors", "flatten", "dump", "eqb", "json", "text", "b64", "short", "variables", "deepcopy"]
            if allow_poly:
                kinds += ["poly", "poly"]
                lv = leaves_of(objs[k]) if not is_var(objs[k]) else []
                if 0 < len(lv) <= 8 and all(l.bounds.as_tuple() == (0, 1) for l in lv) and not objs[k].errors():
                    kinds += ["solve", "solve"]
            if rng.random() < 0.12 and not is_var(objs[k]):
                kinds = ["derived"]
            op = {"op": rng.choice(kinds), "obj": k}
            if op["op"] == "derived":
                # (results of negate() / reduce() share sub-proposition OBJECTS with their receiver, so using them like this
                # reaches the receiver through finding D2; results of assume() are built anew)
                op.update({"how": "assume", "d": gen_dict(rng, g, objs, k, False)[:2],
                           "pick": rng.randrange(8), "vals": [rng.choice([0, 1]) for _ in range(rng.randint(1, 2))]})
            if op["op"] == "solve":
                op["objs"] = [{l.id: rng.randint(-2, 3) for l in rng.sample(lv, rng.randint(1, len(lv)))} for _ in range(rng.randint(1, 2))]
            if op["op"] == "poly":
                op["active"] = rng.random() < 0.5
        ops.append(op)
    return ops

# ----------------------------------------------------------------------------- clean-process reference
import os, sys, struct

class CleanRef:
    """"What would a freshly built identical object answer?" — asked in a process in which NOTHING
    else has ever been queried: a server is forked before the check touches the implementation and
    forks one short-lived child per job, so process-wide state (caches keyed on look-alike objects,
    finding D3) cannot contaminate the reference the way it contaminates an in-process rebuild."""
    JOB_TIMEOUT = 30
    def __init__(self, handlers):
        self.handlers = handlers
        c2s_r, c2s_w = os.pipe()
        s2c_r, s2c_w = os.pipe()
        sys.stdout.flush(); sys.stderr.flush()
        self.pid = os.fork()
        if self.pid == 0:
            os.close(c2s_w); os.close(s2c_r)
            try:
                self._serve(os.fdopen(c2s_r, "rb"), os.fdopen(s2c_w, "wb"))
            finally:
                os._exit(0)
        os.close(c2s_r); os.close(s2c_w)
        self.w = os.fdopen(c2s_w, "wb")
        self.r = os.fdopen(s2c_r, "rb")

    @staticmethod
    def _send(f, obj):
        data = json.dumps(obj).encode()
        f.write(struct.pack("<I", len(data))); f.write(data); f.flush()

    @staticmethod
    def _recv(f):
        hdr = f.read(4)
        if len(hdr) < 4:
            return None
        (n,) = struct.unpack("<I", hdr)
        return json.loads(f.read(n).decode())

    def _serve(self, rin, wout):
        while True:
            req = self._recv(rin)
            if req is None:
                return
            out = []
            for kind, args in req:
                pr, pw = os.pipe()
                pid = os.fork()
                if pid == 0:
                    os.close(pr)
                    try:
                        try:
                            res = self.handlers[kind](*args)
                        except Exception as e:
                            res = ["handler-raise", type(e).__name__, str(e)[:200]]
                        with os.fdopen(pw, "wb") as f:
                            self._send(f, res)
                    finally:
                        os._exit(0)
                os.close(pw)
                import select, signal
                with os.fdopen(pr, "rb") as f:
                    ready, _, _ = select.select([f], [], [], self.JOB_TIMEOUT)
                    if ready:
                        out.append(self._recv(f))
                    else:                                    # the job did not come back (the built-in solver on some inputs)
                        try: os.kill(pid, signal.SIGKILL)
                        except Exception: pass
                        out.append("job-timeout")
                os.waitpid(pid, 0)
            self._send(wout, out)

    def ask(self, jobs):
        """jobs: list of (kind, args) -> list of JSON answers, each computed in its own clean process"""
        if not jobs:
            return []
        self._send(self.w, jobs)
        return self._recv(self.r)

    def close(self):
        try:
            self.w.close(); self.r.close()
            os.waitpid(self.pid, 0)
        except Exception:
            pass

def jnorm(x):
    """JSON round trip (tuples -> lists), so in-process answers compare with CleanRef answers"""
    return json.loads(json.dumps(x))
