"""Shared plumbing for the checks: paths, Python->Coq term printing, the id oracle, sharded
coqc evaluation of generated case files, proof audit, evidence and replay writing.

Run with /venv/bin/python, PYTHONPATH=/repo (set by run.py before puan is imported)."""
import os, sys, re, json, time, subprocess, shutil, hashlib, random, itertools
from concurrent.futures import ThreadPoolExecutor

VERIF = os.path.dirname(os.path.dirname(os.path.abspath(__file__)))
COQ = os.path.join(VERIF, "coq")
THEORIES = os.path.join(COQ, "theories")
WORK = os.environ.get("VERIF_WORK") or os.path.join(VERIF, "work")            # developer override: a second run in parallel
EVIDENCE = os.environ.get("VERIF_EVIDENCE") or os.path.join(VERIF, "evidence")   # developer override: runs against a changed copy
REPLAYS = os.path.join(WORK, "replays")
NPROC = min(16, os.cpu_count() or 4)

TRUSTED_BASE = [
    "Coq 8.16.1 kernel (coqc; coqchk -o in the thorough tier, axiom listing must be <none>); vm_compute for correspondence evaluation, _refuted witnesses and non-vacuity examples; no native_compute, no extraction",
    "axioms: none (every theorem in Properties/*.v prints 'Closed under the global context'; audited on every run; all .v sources scanned for Admitted/admit/Axiom/Parameter/Conjecture/Variable-outside-Section/Unset Guard/bypass_check/type-in-type)",
    "hand-written Gallina models coq/theories/{Plog,Cons,Cic,Config,Json,Errors,Poly,Compress,ConfigObj,Bridge,Heap,Pack}.v with specifications in Sem.v / *Spec.v, tied to /repo only by the correspondence checks in Corr*.v (strength bounded by the generators, see input_distribution)",
    "harness: Python->Coq term printers, the check_* canonicalisations, the id oracle (observed AtLeast._id_generator table), the compression recorder (C15)",
    "modelled, not verified: puan-rspy row generation and bit allocation (compared with the wheel on every run), numpy int64/float64 arithmetic (unbounded Z in the model; floor(a/b) as Z.div), CPython hash of ints/strings/tuples (string and tuple hashing assumed injective), graphlib cycle detection, json.dumps/loads (identity on the JSON AST), pickle/gzip/base64 (abstract codec hypothesis in C17), maz combinators, hashlib.sha256 (theorems hold for every id generator)",
    "Section hypotheses named in the statements that use them: is_argmax solver (C15_exact*, shown satisfiable by C15_exact_solver_exists), codec_ok (C17_roundtrip)",
]

# ----------------------------------------------------------------------------- Coq terms
def q(s):
    """Coq string literal (bytes of the UTF-8 encoding; '"' doubled)."""
    if not isinstance(s, str):
        s = str(s)
    return '"' + s.replace('"', '""') + '"'

def z(n):
    n = int(n)
    return f"({n})" if n < 0 else str(n)

def b(x):
    return "true" if x else "false"

def lst(items):
    return "[" + "; ".join(items) + "]"

def opt(x, f=lambda v: v):
    return "None" if x is None else f"(Some {f(x)})"

def pair(a, c):
    return f"({a}, {c})"

class Interner:
    """Long strings (generated ids) are defined once per case file and referenced by name."""
    def __init__(self, minlen=16):
        self.tab = {}
        self.minlen = minlen
    def s(self, s):
        if not isinstance(s, str):
            s = str(s)
        if len(s) < self.minlen:
            return q(s)
        n = self.tab.get(s)
        if n is None:
            n = f"s_{len(self.tab)}"
            self.tab[s] = n
        return n
    def header(self):
        return "\n".join(f"Definition {n} : string := {q(s)}." for s, n in self.tab.items())

# ----------------------------------------------------------------------------- coqc shards
def ensure_built(prop_id=None, timeout=2400):
    """make the Coq development (no-op when .vo files are current). Returns (ok, log).
    Serialised with a file lock so that concurrently running checks do not race in make."""
    import fcntl
    os.makedirs(WORK, exist_ok=True)
    os.makedirs(os.path.join(VERIF, "work"), exist_ok=True)
    with open(os.path.join(VERIF, "work", ".build.lock"), "w") as lk:      # ONE lock for the one build tree
        fcntl.flock(lk, fcntl.LOCK_EX)
        mk = os.path.join(COQ, "Makefile")
        vfiles = sorted(os.path.relpath(os.path.join(r, f), COQ) for r, _, fs in os.walk(THEORIES) for f in fs if f.endswith(".v"))
        listed = os.path.join(COQ, ".vfiles")
        if (not os.path.exists(mk) or not os.path.exists(listed) or open(listed).read().split() != vfiles
                or os.path.getmtime(mk) < os.path.getmtime(os.path.join(COQ, "_CoqProject"))):
            r = subprocess.run(["coq_makefile", "-f", "_CoqProject", "-o", "Makefile"] + vfiles, cwd=COQ, capture_output=True, text=True)
            if r.returncode != 0:
                return False, r.stdout + r.stderr
            open(listed, "w").write("\n".join(vfiles))
        # build what this property needs: its property file (and through it the model and proof files)
        # and every correspondence checker file
        targets = []
        if prop_id and os.environ.get("VERIF_BUILD_ALL") != "1":
            src = ""
            mp = os.path.join(VERIF, "harness", "props", prop_id.lower() + ".py")
            if os.path.exists(mp):
                src = open(mp).read()
            used = set(re.findall(r"Puan\.(Corr\w*)", src)) | {"Corr"}
            targets = [f"theories/Properties/{prop_id}.vo"] + [v[:-2] + ".vo" for v in vfiles if os.path.basename(v)[:-2] in used]
        try:
            r = subprocess.run(["make", f"-j{NPROC}"] + targets, cwd=COQ, capture_output=True, text=True, timeout=timeout)
        except subprocess.TimeoutExpired:
            return False, "make timed out"
        return r.returncode == 0, r.stdout[-4000:] + r.stderr[-4000:]

def coqc(path, timeout=600):
    try:
        r = subprocess.run(["coqc", "-Q", THEORIES, "Puan", "-w", "-notation-overridden,-deprecated-hint-without-locality,-deprecated-syntactic-definition", path],
                           capture_output=True, text=True, timeout=timeout, cwd=os.path.dirname(path))
        return r.returncode, r.stdout, r.stderr
    except subprocess.TimeoutExpired:
        return 124, "", "timeout"

def guarded(on_error):
    """decorator for oracle functions: an exception of the implementation on a generated (legal) input is a failure of the
    property on that input, reported in the function's own return convention - not a crash of the check"""
    def deco(f):
        def g(*a, **k):
            try:
                return f(*a, **k)
            except (KeyboardInterrupt, SystemExit):
                raise
            except BaseException as e:
                return on_error(e, *a, **k)
        g.__name__ = f.__name__; g.__doc__ = f.__doc__
        return g
    return deco

SUMMARY_RE = re.compile(r"=\s*\((\d+)(?:%nat)?,\s*\[(.*?)\]\)", re.S)

def run_case_shards(prop_id, name, header, case_type, check_fn, cases, shard=250, imports="Puan.Plog Puan.Sem Puan.Corr", interner_of=None, timeout=600):
    """cases: list of (coq_term, python_payload). Evaluates `check_fn case` for every case with
    vm_compute inside coqc; returns (n_evaluated, failing_payload_indices, errors)."""
    d = os.path.join(WORK, prop_id)
    os.makedirs(d, exist_ok=True)
    files = []
    for k in range(0, len(cases), shard):
        chunk = cases[k:k + shard]
        # emit terms through a fresh interner so long strings are shared per file
        it = Interner()
        terms = [c[0](it) if callable(c[0]) else c[0] for c in chunk]
        path = os.path.join(d, f"{name}_{k // shard}.v")
        with open(path, "w") as f:
            f.write(f"From Coq Require Import String ZArith List Bool.\nRequire Import Puan.Base {imports}.\nImport ListNotations.\nOpen Scope Z_scope.\nOpen Scope string_scope.\n")
            f.write(it.header() + "\n")
            f.write(header + "\n")
            f.write(f"Definition cases : list ({case_type}) := [\n" + ";\n".join(terms) + "\n].\n")
            f.write(f"Eval vm_compute in summary (map ({check_fn}) cases).\n")
        files.append((k, len(chunk), path))
    n_eval, failing, errors = 0, [], []
    def work(item):
        k, n, path = item
        return item, coqc(path, timeout)
    with ThreadPoolExecutor(max_workers=NPROC) as ex:
        for (k, n, path), (rc, out, err) in ex.map(work, files):
            m = SUMMARY_RE.search(out)
            if rc != 0 or not m:
                errors.append(f"{os.path.basename(path)}: rc={rc} {err[-600:]} {out[-300:]}")
                continue
            cnt = int(m.group(1))
            if cnt != n:
                errors.append(f"{os.path.basename(path)}: evaluated {cnt} of {n}")
            n_eval += cnt
            idx = [int(x.replace("%nat", "")) for x in re.split(r"[;\s]+", m.group(2).strip()) if x.strip()]
            failing.extend(k + i for i in idx)
            if not idx and os.environ.get("VERIF_KEEP_WORK") != "1":
                base = path[:-2]
                for ext in (".v", ".vo", ".vok", ".vos", ".glob"):
                    try: os.remove(base + ext)
                    except OSError: pass
                try: os.remove(os.path.join(d, "." + os.path.basename(base) + ".aux"))
                except OSError: pass
    return n_eval, failing, errors

def coq_eval(prop_id, name, body, imports="Puan.Plog Puan.Sem Puan.Corr", timeout=300):
    """Run a small Coq script and return stdout (used to print model outputs for replays)."""
    d = os.path.join(WORK, prop_id)
    os.makedirs(d, exist_ok=True)
    path = os.path.join(d, name + ".v")
    with open(path, "w") as f:
        f.write(f"From Coq Require Import String ZArith List Bool.\nRequire Import Puan.Base {imports}.\nImport ListNotations.\nOpen Scope Z_scope.\nOpen Scope string_scope.\n")
        f.write(body)
    rc, out, err = coqc(path, timeout)
    return rc, out, err

# ----------------------------------------------------------------------------- proof audit
FORBIDDEN = re.compile(r"\b(Admitted|admit|Axiom|Axioms|Parameter|Parameters|Conjecture|Hypothesis|Variable|Variables|Hypotheses)\b|Unset\s+Guard|bypass_check|type-in-type|Admit Obligations|impredicative-set")

def scan_sources():
    """Forbidden vernacular anywhere in the development. Variable/Hypothesis are allowed inside
    Sections only (checked by tracking Section/End nesting)."""
    bad = []
    for root, _, fs in os.walk(THEORIES):
        for fn in fs:
            if not fn.endswith(".v"):
                continue
            depth = 0
            txt = open(os.path.join(root, fn)).read()
            txt = re.sub(r'"(?:[^"]|"")*"', '""', txt)                 # string literals cannot declare anything
            txt = re.sub(r"\(\*.*?\*\)", lambda m: "\n" * m.group(0).count("\n"), txt, flags=re.S)
            for ln, line in enumerate(txt.split("\n"), 1):
                st = line.strip()
                if re.match(r"Section\s+\w+", st):
                    depth += 1
                elif re.match(r"End\s+\w+\s*\.", st) and depth > 0:
                    depth -= 1
                for m in FORBIDDEN.finditer(line):
                    w = m.group(0)
                    if w in ("Variable", "Variables", "Hypothesis", "Hypotheses", "Context") and depth > 0:
                        continue
                    bad.append(f"{fn}:{ln}: {w}")
    return bad

def coqchk_property(prop_id, timeout=1500):
    """Independent re-check of the compiled property file and everything it depends on; returns
    (ok, axiom_listing). Thorough tier only (takes a minute or more)."""
    try:
        r = subprocess.run(["coqchk", "-silent", "-o", "-Q", THEORIES, "Puan", f"Puan.Properties.{prop_id}"],
                           capture_output=True, text=True, timeout=timeout, cwd=COQ)
    except subprocess.TimeoutExpired:
        return False, "coqchk timed out"
    out = r.stdout + r.stderr
    m = re.search(r"CONTEXT SUMMARY.*", out, flags=re.S)
    return r.returncode == 0, (m.group(0) if m else out)[-3000:]

def audit_property(prop_id, tier="quick"):
    """Re-compile Properties/<id>.v and read its Print Assumptions output.
    Returns dict(obligations, discharged, theorems, problems)."""
    path = os.path.join(THEORIES, "Properties", prop_id + ".v")
    res = {"obligations": 0, "discharged": 0, "theorems": [], "problems": []}
    if not os.path.exists(path):
        res["problems"].append(f"missing {path}")
        return res
    src = open(path).read()
    src_nc = re.sub(r"\(\*.*?\*\)", "", src, flags=re.S)
    thms = re.findall(r"^\s*(?:Theorem|Example)\s+(\w+)", src_nc, flags=re.M)
    prints = re.findall(r"Print Assumptions\s+(\w+)", src_nc)
    res["theorems"] = thms
    res["obligations"] = len(thms)
    missing = [t for t in thms if t not in prints]
    if missing:
        res["problems"].append("no Print Assumptions for: " + ", ".join(missing))
    t0 = time.time()
    rc, out, err = coqc(path, timeout=900)
    res["coqc_s"] = round(time.time() - t0, 1)
    if rc != 0:
        res["problems"].append(f"Properties/{prop_id}.v does not compile: {err[-1500:]}")
        return res
    closed = out.count("Closed under the global context")
    axioms = re.findall(r"^Axioms:\n((?:.+\n)+)", out, flags=re.M)
    if axioms:
        res["problems"].append("assumptions reported: " + " | ".join(a.strip()[:400] for a in axioms))
    res["discharged"] = min(closed, len(thms)) if not missing else max(0, min(closed, len(thms)) - len(missing))
    if closed != len(prints):
        res["problems"].append(f"{len(prints)} Print Assumptions but {closed} closed")
    bad = scan_sources()
    if bad:
        res["problems"].append("forbidden vernacular: " + ", ".join(bad[:10]))
        res["discharged"] = 0
    if tier == "thorough" and os.environ.get("VERIF_NO_COQCHK") != "1":
        t0 = time.time()
        ok, listing = coqchk_property(prop_id)
        res["coqchk_s"] = round(time.time() - t0, 1)
        res["coqchk"] = listing
        if not ok:
            res["problems"].append("coqchk rejected the compiled development: " + listing[-800:])
        else:
            ax = re.search(r"\* Axioms:\s*(.*?)(?:\n\s*\*|\Z)", listing, flags=re.S)
            axioms = [a.strip() for a in (ax.group(1).split("\n") if ax else []) if a.strip() and "<none>" not in a]
            res["coqchk_axioms"] = axioms
            if axioms:
                res["problems"].append("coqchk lists axioms: " + "; ".join(axioms)[:600])
    return res

# ----------------------------------------------------------------------------- findings
def load_findings():
    p = os.path.join(VERIF, "known_findings.json")
    if not os.path.exists(p):
        return []
    return json.load(open(p))["findings"]

# ----------------------------------------------------------------------------- results
class Result:
    """Collects what one check run did; decides the verdict; writes evidence."""
    def __init__(self, prop_id, tier, seed):
        self.prop_id, self.tier, self.seed = prop_id, tier, seed
        self.t0 = time.time()
        self.evaluations = 0
        self.corr_cases = 0
        self.nontrivial = set()
        self.samples = []
        self.dist = {}
        self.violations = []       # (kind, description, replay_payload)  kind in {oracle, corr, proof, infra}
        self.known = {}            # finding id -> description (witnessed on this run)
        self.audit = None
        self.rule = ""
        self.notes = []
        self.exhaustive = False
    def count(self, key, n=1):
        self.dist[key] = self.dist.get(key, 0) + n
    def nt(self, canon):
        self.nontrivial.add(hashlib.sha1(canon.encode()).hexdigest()[:16])
    def sample(self, s, cap=6):
        if len(self.samples) < cap:
            self.samples.append(s)
    def violation(self, kind, desc, payload):
        self.violations.append((kind, desc, payload))
    def known_finding(self, fid, desc):
        self.known.setdefault(fid, desc)

    def finish(self):
        os.makedirs(EVIDENCE, exist_ok=True)
        os.makedirs(REPLAYS, exist_ok=True)
        a = self.audit or {"obligations": 0, "discharged": 0, "theorems": [], "problems": ["audit not run"]}
        for pr in a["problems"]:
            self.violation("proof", pr, {"theorem_file": f"coq/theories/Properties/{self.prop_id}.v", "problem": pr})
        lines = []
        for fid, desc in sorted(self.known.items()):
            lines.append(f"KNOWN-FINDING: property={self.prop_id} {fid}: {desc}")
        exit_code = 0
        concrete = [v for v in self.violations if v[0] == "oracle"]
        other = [v for v in self.violations if v[0] != "oracle"]
        replay_paths = []
        if concrete:
            for n, (kind, desc, payload) in enumerate(concrete[:3]):
                rp = os.path.join(REPLAYS, f"{self.prop_id}_{self.tier}_{n}.json")
                json.dump({"property": self.prop_id, "kind": "failing-input", "description": desc, "replay": payload,
                           "also_broken": [o[1][:300] for o in other[:5]]}, open(rp, "w"), indent=1, default=str)
                replay_paths.append(rp)
            lines.append(f"VIOLATION property={self.prop_id} replay={replay_paths[0]}")
            exit_code = 1
        elif other:
            rp = os.path.join(REPLAYS, f"{self.prop_id}_{self.tier}_unchecked.json")
            json.dump({"property": self.prop_id, "kind": "no-failing-input-found",
                       "no_longer_checks": [{"what": k, "description": d, "detail": p} for k, d, p in other[:10]]},
                      open(rp, "w"), indent=1, default=str)
            lines.append(f"VIOLATION property={self.prop_id} replay={rp} no-failing-input-found")
            exit_code = 1
        ev = {
            "property_id": self.prop_id, "tier": self.tier, "seed": self.seed, "level": "proof",
            "coverage": {
                "obligations": a["obligations"], "discharged": a["discharged"],
                "checker_cmd": f"make -C coq && coqc -Q coq/theories Puan coq/theories/Properties/{self.prop_id}.v  (Print Assumptions under every theorem)",
                "trusted_base": TRUSTED_BASE,
                "theorems": a["theorems"],
                "evaluations": self.evaluations,
                "distinct_nontrivial": len(self.nontrivial),
                "rule": self.rule,
                "samples": self.samples,
                "traces_validated_against_impl": self.corr_cases,
                "input_distribution": dict(sorted(self.dist.items())),
                "known_findings_witnessed": sorted(self.known),
                "coqchk": {k: a.get(k) for k in ("coqchk_s", "coqchk_axioms", "coqchk") if k in a},
                "exhaustive": self.exhaustive,
                "notes": self.notes,
            },
            "assumptions": TRUSTED_BASE,
            "wall_s": round(time.time() - self.t0, 2),
            "violations": len(self.violations),
        }
        json.dump(ev, open(os.path.join(EVIDENCE, self.prop_id + ".json"), "w"), indent=1, default=str)
        for l in lines:
            print(l)
        print(f"[{self.prop_id}/{self.tier}] theorems {a['discharged']}/{a['obligations']} correspondence={self.corr_cases} evaluations={self.evaluations} "
              f"nontrivial={len(self.nontrivial)} violations={len(self.violations)} known={len(self.known)} wall={ev['wall_s']}s")
        for k, d, _ in self.violations[:8]:
            print(f"   - {k}: {d[:400]}")
        return exit_code
