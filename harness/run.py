#!/venv/bin/python
"""run.py --property Cxx --tier quick|thorough [--replay file]

One check run: build/audit the Coq development, run the correspondence check and the direct
oracle for the property against /repo's working tree, write evidence, print the verdict."""
import os, sys, argparse, importlib, json, time, warnings
os.environ.setdefault("PYTHONHASHSEED", "0")
HERE = os.path.dirname(os.path.abspath(__file__))
REPO = os.environ.get("PUAN_REPO", "/repo")
if os.environ.get("PYTHONHASHSEED") != "0" and not os.environ.get("VERIF_KEEP_HASHSEED"):
    os.environ["PYTHONHASHSEED"] = "0"
    os.execv(sys.executable, [sys.executable] + sys.argv)
sys.path.insert(0, REPO)
sys.path.insert(0, HERE)
sys.dont_write_bytecode = True
warnings.filterwarnings("ignore")

def main():
    ap = argparse.ArgumentParser()
    ap.add_argument("--property", required=True)
    ap.add_argument("--tier", default=os.environ.get("VERIF_TIER", "quick"))
    ap.add_argument("--replay")
    ap.add_argument("--no-build", action="store_true")
    a = ap.parse_args()
    seed = int(os.environ.get("VERIF_SEED", "0"))
    import common
    mod = importlib.import_module("props." + a.property.lower())
    if a.replay:
        sys.exit(mod.replay(json.load(open(a.replay))))
    res = common.Result(a.property, a.tier, seed)
    try:
        if not a.no_build:
            ok, log = common.ensure_built(a.property)
            if not ok:
                res.violation("proof", "the Coq development does not build: " + log[-1500:], {"build_log": log[-3000:]})
        res.audit = common.audit_property(a.property, a.tier)
        import puan
        assert os.path.realpath(os.path.dirname(os.path.dirname(puan.__file__))) == os.path.realpath(REPO), puan.__file__
        mod.run(res, a.tier, seed)
    except (KeyboardInterrupt, SystemExit):
        raise
    except BaseException as e:                  # pyo3 panics of the binary wheel derive from BaseException
        import traceback
        res.violation("infra", f"check crashed: {type(e).__name__}: {e}", {"traceback": traceback.format_exc()[-3000:]})
    try:
        rc = res.finish()
    except Exception as e:                      # last resort: the interface still gets its VIOLATION line
        import traceback
        os.makedirs(common.REPLAYS, exist_ok=True)
        path = os.path.join(common.REPLAYS, f"{a.property}_{a.tier}_unchecked.json")
        try:
            json.dump({"property": a.property, "kind": "no-failing-input-found",
                       "no_longer_checks": [{"what": "infra", "description": f"verdict could not be written: {type(e).__name__}: {e}",
                                             "detail": {"traceback": traceback.format_exc()[-3000:]}}]}, open(path, "w"), indent=1)
        except Exception:
            pass
        print(f"VIOLATION property={a.property} replay={path} no-failing-input-found")
        rc = 1
    sys.exit(rc)

if __name__ == "__main__":
    main()
